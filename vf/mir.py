"""Front end: rustc `-Zunpretty=mir` text  ->  bodies / blocks / statement ASTs.

Everything here is syntax only.  The parser fails loudly (MirParseError) on a
shape it does not know; it never skips a statement silently.
"""
import re
import hashlib

class MirParseError(Exception):
    pass

# ----------------------------------------------------------------------------
# bracket / string aware scanning
# ----------------------------------------------------------------------------
OPEN = '([{<'
CLOSE = ')]}>'
PAIR = {')': '(', ']': '[', '}': '{', '>': '<'}

def scan(s, start=0):
    """Yield (index, char, depth) for characters of s outside string/char literals.
    depth is the nesting depth *before* the character for openers and *after*
    for closers (i.e. depth of the enclosing context).  '<'/'>' are treated as
    brackets except in '->', '=>', '<=', '>=', ' < ', ' > ', '<<', '>>'."""
    i = start
    n = len(s)
    depth = 0
    while i < n:
        c = s[i]
        if c == '"':
            # string literal, possibly prefixed by b
            j = i + 1
            while j < n:
                if s[j] == '\\':
                    j += 2
                    continue
                if s[j] == '"':
                    break
                j += 1
            i = j + 1
            continue
        if c == "'":
            # char literal or lifetime
            if i + 2 < n and s[i + 1] == '\\':
                j = s.find("'", i + 2)
                if j > 0:
                    i = j + 1
                    continue
            if i + 2 < n and s[i + 2] == "'":
                i += 3
                continue
            i += 1
            continue
        if c in '([{':
            yield i, c, depth
            depth += 1
        elif c in ')]}':
            depth -= 1
            yield i, c, depth
        elif c == '<':
            yield i, c, depth
            depth += 1
        elif c == '>':
            prv = s[i - 1] if i > 0 else ''
            if prv in '-=':
                yield i, 'x', depth
            else:
                depth -= 1
                yield i, c, depth
        else:
            yield i, c, depth
        i += 1

def split_top(s, sep=','):
    """Split s at top-level occurrences of sep (single char), trimming items."""
    out = []
    last = 0
    for i, c, d in scan(s):
        if c == sep and d == 0:
            out.append(s[last:i].strip())
            last = i + 1
    tail = s[last:].strip()
    if tail or out:
        out.append(tail)
    return [x for x in out if x != ''] if sep == ',' else out

def find_top(s, needle, start=0):
    """Index of first top-level occurrence of string needle in s, or -1."""
    n0 = needle[0]
    for i, c, d in scan(s, 0):
        if i < start:
            continue
        if d == 0 and s.startswith(needle, i):
            return i
    return -1

def rfind_matching_open(s, close_idx):
    """s[close_idx] is a closer; return the index of its opener."""
    stack = []
    for i, c, d in scan(s):
        if c in OPEN:
            stack.append(i)
        elif c in CLOSE:
            o = stack.pop()
            if i == close_idx:
                return o
    raise MirParseError('unbalanced: ' + s)

def strip_generics(s):
    """Remove every <...> group (type arguments), keeping `<T as Trait>` heads intact is
    NOT attempted: use on paths that do not start with '<'."""
    out = []
    depth = 0
    for i, c, d in scan(s):
        if c == '<':
            depth += 1
        elif c == '>':
            depth -= 1
        elif depth == 0:
            out.append(s[i])
    # scan() skips string literals entirely; paths have none
    return ''.join(out)

# ----------------------------------------------------------------------------
# AST
# ----------------------------------------------------------------------------
class Place:
    __slots__ = ('local', 'projs', 'text')
    def __init__(self, local, projs, text):
        self.local = local
        self.projs = projs    # list of tuples
        self.text = text
    def __repr__(self):
        return 'Place(%s)' % self.text

class Operand:
    __slots__ = ('kind', 'place', 'const')
    def __init__(self, kind, place=None, const=None):
        self.kind = kind      # 'copy' | 'move' | 'const'
        self.place = place
        self.const = const    # raw text for const
    def __repr__(self):
        return '%s %s' % (self.kind, self.place.text if self.place else self.const)

class Rvalue:
    __slots__ = ('kind', 'a', 'b', 'c', 'text')
    def __init__(self, kind, a=None, b=None, c=None, text=''):
        self.kind = kind
        self.a = a
        self.b = b
        self.c = c
        self.text = text

class Stmt:
    __slots__ = ('kind', 'place', 'rv', 'idx', 'text')
    def __init__(self, kind, place=None, rv=None, idx=None, text=''):
        self.kind = kind      # 'assign' | 'setdiscr' | 'nop'
        self.place = place
        self.rv = rv
        self.idx = idx
        self.text = text

class Term:
    __slots__ = ('kind', 'op', 'targets', 'otherwise', 'place', 'target', 'unwind',
                 'expected', 'msg', 'callee', 'args', 'dest', 'text')
    def __init__(self, kind, text=''):
        self.kind = kind
        self.text = text
        self.op = self.targets = self.otherwise = self.place = self.target = None
        self.unwind = self.expected = self.msg = self.callee = self.args = self.dest = None

class Body:
    def __init__(self, kind, header, lines, lineno):
        self.kind = kind            # 'fn' | 'const' | 'static'
        self.header = header
        self.raw = lines
        self.lineno = lineno
        self.name = None            # full path text before the parameter list
        self.params = []            # [(local, type)]
        self.ret = None
        self.locals = {}            # local -> type text
        self.debug = {}             # debug name -> place text
        self.blocks = None          # bbN -> ([Stmt], Term) (lazy)
        self.cleanup = set()
        self._sha = None
    @property
    def sha(self):
        if self._sha is None:
            self._sha = hashlib.sha256('\n'.join(self.raw).encode()).hexdigest()[:16]
        return self._sha
    def parse(self):
        if self.blocks is None:
            _parse_blocks(self)
        return self

# ----------------------------------------------------------------------------
# splitting into bodies
# ----------------------------------------------------------------------------
HEAD_RE = re.compile(r'^(fn|const|static) ')

def split_bodies(text):
    lines = text.split('\n')
    i = 0
    n = len(lines)
    bodies = []
    simple = {}
    while i < n:
        l = lines[i]
        m1 = _SIMPLE_CONST.match(l)
        if m1:
            simple.setdefault(m1.group(1), []).append((i + 1, m1.group(3)))
            i += 1
            continue
        if HEAD_RE.match(l) and l.rstrip().endswith('{'):
            j = i + 1
            while j < n and lines[j] != '}':
                j += 1
            if j >= n:
                raise MirParseError('unterminated body at line %d' % (i + 1))
            bodies.append(_parse_header(lines[i:j + 1], i + 1))
            i = j + 1
        else:
            i += 1
    return bodies, simple

_SIMPLE_CONST = re.compile(r'^const (.+): ([^=]+?) = const (.+);$')

LOCAL_RE = re.compile(r'^\s+let (mut )?(_\d+): (.*);$')
DEBUG_RE = re.compile(r'^\s+debug (.+?) => (.*);$')
BB_RE = re.compile(r'^    (bb\d+)( \(cleanup\))?: \{$')

def _parse_header(lines, lineno):
    head = lines[0]
    kind = head.split(' ', 1)[0]
    b = Body(kind, head, lines, lineno)
    rest = head[len(kind) + 1:]
    if kind == 'fn':
        # name ( params ) -> ret {
        # find the '(' that opens the parameter list: first top-level '(' after the name.
        # Names contain '<impl at src/x.rs:1:1: 2:2>' and '{closure#0}', no top-level parens.
        k = None
        for i, c, d in scan(rest):
            if c == '(' and d == 0:
                k = i
                break
        if k is None:
            raise MirParseError('fn header: ' + head)
        b.name = rest[:k].strip()
        # matching close
        depth = 0
        close = None
        for i, c, d in scan(rest, k):
            pass
        # simple matching using scan depth relative to k
        stack = 0
        for i, c, d in scan(rest[k:]):
            if c == '(':
                stack += 1
            elif c == ')':
                stack -= 1
                if stack == 0:
                    close = k + i
                    break
        params = rest[k + 1:close]
        for p in split_top(params):
            m = re.match(r'^(_\d+): (.*)$', p)
            if not m:
                raise MirParseError('param: ' + p)
            b.params.append((m.group(1), m.group(2)))
            b.locals[m.group(1)] = m.group(2)
        after = rest[close + 1:].strip()
        if after.startswith('->'):
            b.ret = after[2:].rstrip('{').strip()
        else:
            b.ret = '()'
    else:
        # const NAME: TYPE = {     |  static NAME: TYPE = {   | const X::promoted[0]: T = {
        m = re.match(r'^(.*?): (.*) = \{$', rest)
        if not m:
            raise MirParseError('const header: ' + head)
        # name may contain ':' only as '::' ; find first ': ' at top level
        k = None
        for i, c, d in scan(rest):
            if c == ':' and d == 0 and rest[i + 1] == ' ' and rest[i - 1] != ':':
                k = i
                break
        b.name = rest[:k].strip()
        b.ret = rest[k + 2:].rstrip('{').rstrip().rstrip('=').strip()
    for l in lines[1:]:
        if BB_RE.match(l):
            break
        m = LOCAL_RE.match(l)
        if m:
            b.locals[m.group(2)] = m.group(3)
            continue
        m = DEBUG_RE.match(l)
        if m:
            b.debug[m.group(1)] = m.group(2)
    return b

# ----------------------------------------------------------------------------
# places / operands
# ----------------------------------------------------------------------------
_place_cache = {}

def parse_place(s):
    s = s.strip()
    p = _place_cache.get(s)
    if p is None:
        local, projs = _pp(s)
        p = Place(local, projs, s)
        _place_cache[s] = p
    return p

def _pp(s):
    s = s.strip()
    # trailing index projections  P[...]
    if s.endswith(']'):
        o = rfind_matching_open(s, len(s) - 1)
        inner = s[o + 1:-1]
        base, projs = _pp(s[:o])
        m = re.match(r'^(_\d+)$', inner)
        if m:
            return base, projs + [('index', m.group(1))]
        m = re.match(r'^(-?\d+) of (\d+)$', inner)
        if m:
            k = int(m.group(1))
            return base, projs + [('constindex', abs(k), k < 0 or m.group(1).startswith('-'), int(m.group(2)))]
        m = re.match(r'^(\d*):(-?\d*)$', inner)
        if m:
            a = int(m.group(1)) if m.group(1) else 0
            bb = m.group(2)
            return base, projs + [('subslice', a, int(bb) if bb else 0)]
        raise MirParseError('index projection: ' + s)
    if re.match(r'^_\d+$', s):
        return s, []
    if s.startswith('(') and s.endswith(')'):
        inner = s[1:-1].strip()
        if inner.startswith('*'):
            base, projs = _pp(inner[1:])
            return base, projs + [('deref',)]
        # field: P.N: T     downcast: P as V
        # find top-level ': ' (type annotation) -> field
        k = find_top(inner, ': ')
        if k >= 0:
            left = inner[:k]
            ty = inner[k + 2:].strip()
            m = re.match(r'^(.*)\.(\d+)$', left, re.S)
            if not m:
                raise MirParseError('field place: ' + s)
            base, projs = _pp(m.group(1))
            return base, projs + [('field', int(m.group(2)), ty)]
        k = inner.rfind(' as ')
        if k >= 0:
            base, projs = _pp(inner[:k])
            return base, projs + [('downcast', inner[k + 4:].strip())]
        # plain parenthesised
        return _pp(inner)
    raise MirParseError('place: ' + s)

def parse_operand(s):
    s = s.strip()
    if s.startswith('no_retag '):
        s = s[9:]
    if s.startswith('copy '):
        return Operand('copy', parse_place(s[5:]))
    if s.startswith('move '):
        return Operand('move', parse_place(s[5:]))
    if s.startswith('const '):
        return Operand('const', const=s[6:].strip())
    if re.match(r'^[A-Za-z_<{]', s) and not s.startswith(('copy', 'move')):
        return Operand('const', const=s)      # bare fn item / ZST constant
    raise MirParseError('operand: ' + s)

BINOPS = ('AddWithOverflow', 'SubWithOverflow', 'MulWithOverflow', 'AddUnchecked', 'SubUnchecked',
          'MulUnchecked', 'ShlUnchecked', 'ShrUnchecked', 'Add', 'Sub', 'Mul', 'Div', 'Rem', 'BitXor',
          'BitAnd', 'BitOr', 'Shl', 'Shr', 'Eq', 'Lt', 'Le', 'Ne', 'Ge', 'Gt', 'Cmp', 'Offset')
UNOPS = ('Not', 'Neg', 'PtrMetadata')
_BIN_RE = re.compile(r'^(%s)\((.*)\)$' % '|'.join(BINOPS), re.S)
_UN_RE = re.compile(r'^(%s)\((.*)\)$' % '|'.join(UNOPS), re.S)
_CAST_RE = re.compile(r'^(.*) as (.*) \((\w+)(\(.*\))?\)$', re.S)

def split_agg(rhs):
    """Aggregate head and argument list.  Returns (head, tuple_args|None, field_args|None)."""
    s = rhs.strip()
    if s.endswith(')'):
        o = rfind_matching_open(s, len(s) - 1)
        return s[:o].strip(), s[o + 1:-1], None
    if s.endswith('}'):
        o = rfind_matching_open(s, len(s) - 1)
        return s[:o].strip(), None, s[o + 1:-1]
    return s, None, None

def parse_rvalue(rhs):
    rhs = rhs.strip()
    m = _BIN_RE.match(rhs)
    if m:
        items = split_top(m.group(2))
        if len(items) == 2:
            return Rvalue('binop', m.group(1), parse_operand(items[0]), parse_operand(items[1]), text=rhs)
    m = _UN_RE.match(rhs)
    if m:
        return Rvalue('unop', m.group(1), parse_operand(m.group(2)), text=rhs)
    if rhs.startswith('discriminant('):
        return Rvalue('discriminant', parse_place(rhs[13:-1]), text=rhs)
    if rhs.startswith('Len('):
        return Rvalue('len', parse_place(rhs[4:-1]), text=rhs)
    if rhs.startswith('PtrMetadata('):
        return Rvalue('unop', 'PtrMetadata', parse_operand(rhs[12:-1]), text=rhs)
    if rhs.startswith('CopyForDeref('):
        return Rvalue('use', Operand('copy', parse_place(rhs[13:-1])), text=rhs)
    if rhs.startswith('ShallowInitBox('):
        items = split_top(rhs[15:-1])
        return Rvalue('shallowbox', parse_operand(items[0]), items[1], text=rhs)
    if rhs.startswith(('SizeOf(', 'AlignOf(', 'OffsetOf(', 'UbChecks(', 'ContractChecks(')):
        return Rvalue('nullop', rhs, text=rhs)
    if rhs.startswith(('copy ', 'move ', 'const ', 'no_retag ')):
        m = _CAST_RE.match(rhs)
        if m and find_top(rhs, ' as ') >= 0 and not rhs.startswith('const "'):
            # the cast kind is the final parenthesised word
            k = rhs.rfind(' (')
            kind = rhs[k + 2:-1]
            body = rhs[:k]
            j = _rfind_top(body, ' as ')
            if j >= 0:
                return Rvalue('cast', parse_operand(body[:j]), body[j + 4:].strip(), kind, text=rhs)
        return Rvalue('use', parse_operand(rhs), text=rhs)
    if rhs.startswith('&raw '):
        rest = rhs[5:]
        mut = rest.startswith('mut ')
        rest = rest[4:] if mut else rest[6:]
        return Rvalue('ref', parse_place(rest), 'raw_mut' if mut else 'raw_const', text=rhs)
    if rhs.startswith('&'):
        rest = rhs[1:].strip()
        kind = 'shared'
        for pre, kd in (('mut ', 'mut'), ('fake shallow ', 'shared'), ('fake ', 'shared'), ('two_phase ', 'mut')):
            if rest.startswith(pre):
                rest = rest[len(pre):]
                kind = kd
                break
        # lifetimes: &'a mut
        m = re.match(r"^'\w+ (mut )?(.*)$", rest, re.S)
        if m:
            kind = 'mut' if m.group(1) else kind
            rest = m.group(2)
        return Rvalue('ref', parse_place(rest), kind, text=rhs)
    if rhs.startswith('['):
        inner = rhs[1:-1]
        k = find_top(inner, '; ')
        if k >= 0:
            return Rvalue('repeat', parse_operand(inner[:k]), inner[k + 2:].strip(), text=rhs)
        return Rvalue('array', [parse_operand(x) for x in split_top(inner)], text=rhs)
    if rhs.startswith('(') and rhs.endswith(')') and rfind_matching_open(rhs, len(rhs) - 1) == 0:
        inner = rhs[1:-1]
        return Rvalue('tuple', [parse_operand(x) for x in split_top(inner)], text=rhs)
    m = re.match(r'^\{(closure|coroutine)@(.*?)\}(?: \{ (.*) \})?$', rhs, re.S)
    if m is None:
        m = re.match(r'^\{(async (?:fn body of|block|closure body of)|closure|coroutine)[@ ](.*?)\}(?: \{ (.*) \})?$', rhs, re.S)
    if m and rhs.startswith('{'):
        fields = []
        if m.group(3):
            for kv in split_top(m.group(3)):
                k = kv.find(': ')
                fields.append((kv[:k], parse_operand(kv[k + 2:])))
        # cut the head "{...}" exactly
        c = _matching_close(rhs, 0)
        return Rvalue('closure', rhs[:c + 1], fields, text=rhs)
    if rhs.startswith('{'):
        raise MirParseError('closure-like rvalue: ' + rhs)
    head, targs, fargs = split_agg(rhs)
    if targs is not None:
        return Rvalue('adt', head, [parse_operand(x) for x in split_top(targs)], None, text=rhs)
    if fargs is not None:
        names = []
        ops = []
        for kv in split_top(fargs):
            k = kv.find(': ')
            names.append(kv[:k])
            ops.append(parse_operand(kv[k + 2:]))
        return Rvalue('adt', head, ops, names, text=rhs)
    return Rvalue('adt', head, [], None, text=rhs)

def _matching_close(s, open_idx):
    depth = 0
    for i, c, d in scan(s, open_idx):
        if c in OPEN:
            depth += 1
        elif c in CLOSE:
            depth -= 1
            if depth == 0:
                return i
    raise MirParseError('unbalanced: ' + s)

def _rfind_top(s, needle):
    last = -1
    for i, c, d in scan(s):
        if d == 0 and s.startswith(needle, i):
            last = i
    return last

# ----------------------------------------------------------------------------
# statements and terminators
# ----------------------------------------------------------------------------
NOP_PREFIX = ('StorageLive(', 'StorageDead(', 'nop', 'FakeRead(', 'PlaceMention(', 'Retag(',
              'AscribeUserType(', 'ConstEvalCounter', 'Coverage', 'BackwardIncompatibleDropHint(',
              'assume(', 'Deinit(')

def split_assign(s):
    """Split 'PLACE = RHS' at the first top-level ' = '."""
    k = find_top(s, ' = ')
    if k < 0:
        raise MirParseError('assign: ' + s)
    return s[:k], s[k + 3:]

def parse_stmt(s):
    if s.startswith(NOP_PREFIX):
        return Stmt('nop', text=s)
    if s.startswith('copy_nonoverlapping('):
        raise MirParseError('copy_nonoverlapping: ' + s)
    body = s[:-1] if s.endswith(';') else s
    if body.startswith('discriminant('):
        lhs, rhs = split_assign(body)
        return Stmt('setdiscr', parse_place(lhs[13:-1]), idx=int(rhs), text=s)
    lhs, rhs = split_assign(body)
    return Stmt('assign', parse_place(lhs), parse_rvalue(rhs), text=s)

_TARGETS_RE = re.compile(r'^(.*) -> \[(.*)\];$', re.S)

def parse_term(s):
    t = Term('?', s)
    if s == 'return;':
        t.kind = 'return'
        return t
    if s == 'unreachable;':
        t.kind = 'unreachable'
        return t
    if s.startswith('resume;') or s.startswith('terminate(') or s.startswith('abort;'):
        t.kind = 'resume'
        return t
    if s == 'coroutine_drop;':
        t.kind = 'return'
        return t
    m = re.match(r'^goto -> (bb\d+);$', s)
    if m:
        t.kind = 'goto'
        t.target = m.group(1)
        return t
    if s.startswith('switchInt('):
        m = _TARGETS_RE.match(s)
        head = m.group(1)
        t.kind = 'switch'
        t.op = parse_operand(head[10:-1])
        t.targets = []
        for it in split_top(m.group(2)):
            k, v = it.split(': ')
            if k == 'otherwise':
                t.otherwise = v
            else:
                t.targets.append((int(k), v))
        return t
    if s.startswith('drop('):
        m = _TARGETS_RE.match(s)
        t.kind = 'drop'
        t.place = parse_place(m.group(1)[5:-1])
        for it in split_top(m.group(2)):
            k, v = it.split(': ', 1) if ': ' in it else (it.split(' ')[0], it)
            if k == 'return':
                t.target = v
        return t
    if s.startswith('assert('):
        m = _TARGETS_RE.match(s)
        inner = m.group(1)[7:-1]
        items = split_top(inner)
        c = items[0]
        t.kind = 'assert'
        t.expected = True
        if c.startswith('!'):
            t.expected = False
            c = c[1:]
        t.op = parse_operand(c)
        t.msg = items[1] if len(items) > 1 else ''
        for it in split_top(m.group(2)):
            if it.startswith('success: '):
                t.target = it[9:]
        return t
    if s.startswith(('falseEdge', 'falseUnwind', 'yield', 'tailcall')):
        raise MirParseError('unexpected terminator: ' + s)
    # call
    lhs, rhs = split_assign(s)
    t.kind = 'call'
    t.dest = parse_place(lhs)
    m = _TARGETS_RE.match(rhs)
    if m:
        call = m.group(1)
        for it in split_top(m.group(2)):
            if it.startswith('return: '):
                t.target = it[8:]
    else:
        # diverging:  f(args) -> unwind continue;   or   f(args) -> bbN;
        k = rhs.rfind(') -> ')
        if k < 0:
            raise MirParseError('call: ' + s)
        call = rhs[:k + 1]
        tail = rhs[k + 5:].rstrip(';')
        mm = re.match(r'^(bb\d+)$', tail)
        t.target = None
        t.unwind = tail
    if not call.endswith(')'):
        raise MirParseError('call shape: ' + s)
    o = rfind_matching_open(call, len(call) - 1)
    t.callee = call[:o].strip()
    t.args = [parse_operand(x) for x in split_top(call[o + 1:-1])]
    return t

def _parse_blocks(b):
    b.blocks = {}
    cur = None
    buf = []
    for l in b.raw[1:-1]:
        if cur is None:
            m = BB_RE.match(l)
            if m:
                cur = m.group(1)
                buf = []
                if m.group(2):
                    b.cleanup.add(cur)
            continue
        if l == '    }':
            if cur in b.cleanup:
                b.blocks[cur] = None        # cleanup blocks are never executed (panic = abort of the task)
            else:
                if not buf:
                    raise MirParseError('empty block %s in %s' % (cur, b.name))
                # statements may span several lines only inside string literals (not observed)
                try:
                    stmts = [parse_stmt(x) for x in buf[:-1]]
                    term = parse_term(buf[-1])
                except MirParseError as e:
                    raise MirParseError('%s [%s %s]' % (e, b.name, cur))
                b.blocks[cur] = (stmts, term)
            cur = None
            continue
        buf.append(l.strip())
    return b

class Program:
    """All bodies of one dump, indexed by name."""
    def __init__(self, text):
        self.bodies, self.simple_consts = split_bodies(text)
        self.by_name = {}
        for b in self.bodies:
            self.by_name.setdefault(b.name, []).append(b)
    def get(self, name):
        l = self.by_name.get(name)
        if not l:
            return None
        return l[0]
    def find(self, pattern):
        rx = re.compile(pattern)
        return [b for b in self.bodies if rx.search(b.name)]
