"""mirsym: symbolic abstract machine over MIR bodies.

One Machine object = one execution path.  All nondeterminism goes through
Chooser.choose(); exploration (explore()) re-executes along recorded prefixes.
"""
import re
import copy
from . import sym
from .sym import T
from .mir import (Body, Place, Operand, Rvalue, Stmt, Term, strip_generics, split_top, scan,
                  find_top, MirParseError)
from .values import (Adt, Ref, Seq, Slice, Cell, FnItem, Opaque, MOVED, UNINIT, unit, copy_value)

class Panic(Exception):
    def __init__(self, msg, where=''):
        Exception.__init__(self, msg)
        self.msg = msg
        self.where = where

class Unsupported(Exception):
    pass

class BoundExceeded(Exception):
    pass

class Infeasible(Exception):
    """Path abandoned because an assumption is unsatisfiable on it."""
    pass

class TaskBlocked(Exception):
    pass

# ----------------------------------------------------------------------------
class Chooser:
    def __init__(self, prefix=()):
        self.prefix = list(prefix)
        self.pos = 0
        self.trace = []          # choices taken
        self.labels = []
        self.alts = []           # alternative prefixes discovered on this run
    def choose(self, n, label=''):
        if n <= 0:
            raise Infeasible('no option at ' + label)
        if n == 1:
            return 0
        if self.pos < len(self.prefix):
            c = self.prefix[self.pos]
            if c >= n:
                raise RuntimeError('replay divergence at %s: %d >= %d' % (label, c, n))
        else:
            c = 0
            for alt in range(1, n):
                self.alts.append(self.trace + [alt])
        self.trace.append(c)
        self.labels.append((label, c, n))
        self.pos += 1
        return c

# ----------------------------------------------------------------------------
def norm_type(t):
    """Head of a type: generics stripped, references kept."""
    t = t.strip()
    return strip_generics(t) if not t.startswith('{') else t

_seg_cache = {}

def split_path(s):
    """Split a path at top-level '::'."""
    r = _seg_cache.get(s)
    if r is not None:
        return r
    out = []
    last = 0
    prev = None
    for i, c, d in scan(s):
        if c == ':' and d == 0 and i + 1 < len(s) and s[i + 1] == ':' and prev != i - 1:
            out.append(s[last:i])
            last = i + 2
            prev = i
        elif c == ':' and d == 0 and prev == i - 1:
            pass
    out.append(s[last:])
    _seg_cache[s] = out
    return out

_norm_cache = {}

def norm_callee(text):
    """Canonical callee key: turbofish/generic arguments dropped, `<A as B>` kept with heads only."""
    r = _norm_cache.get(text)
    if r is not None:
        return r
    segs = split_path(text)
    out = []
    for k, seg in enumerate(segs):
        seg = seg.strip()
        if seg.startswith('<impl '):
            out.append(seg)
        elif seg.startswith('<') and k == 0:
            inner = seg[1:-1]
            j = find_top(inner, ' as ')
            if j >= 0:
                a = type_head(inner[:j])
                b = type_head(inner[j + 4:])
                out.append('<%s as %s>' % (a, b))
            else:
                out.append('<%s>' % type_head(inner))
        elif seg.startswith('<'):
            continue              # turbofish
        elif seg.startswith('{'):
            out.append(seg)
        else:
            out.append(strip_generics(seg))
    r = '::'.join(out)
    _norm_cache[text] = r
    return r

def type_head(t):
    """Type with generic arguments removed; closures/coroutines keep their braces text."""
    t = t.strip()
    if t.startswith('{'):
        return t
    if t.startswith('&'):
        m = re.match(r"^&('\w+ )?(mut )?(.*)$", t, re.S)
        return '&' + (m.group(2) or '') + type_head(m.group(3))
    if t.startswith('['):
        return t
    if t.startswith('dyn '):
        return 'dyn ' + strip_generics(t[4:]).split(' + ')[0]
    if t.startswith('<'):
        return t
    return strip_generics(t)

def last_seg(path):
    segs = [s for s in split_path(path) if s]
    return segs[-1] if segs else path

# ----------------------------------------------------------------------------
class State:
    """Everything that changes during execution and must be snapshotted between scheduler steps."""
    def __init__(self):
        self.pc = []                 # path condition: list of bool terms
        self.events = []             # harness-visible event log
        self.env = None              # environment model (harness specific)
        self.sched = None
        self.mutexes = []
        self.channels = []
        self.oneshots = []
        self.timers = []
        self.spurious_done = set()
        self.roots = {}              # harness-owned objects (manager, params, ...)
        self.counters = {}
        self.fresh_n = 0             # per-state counter for fresh symbols (deterministic names => states merge)
        self.lemmas = []             # definitional constraints (division lemmas, byte decompositions)

class Machine:
    """One path of symbolic execution."""
    def __init__(self, prog, solver, chooser=None, registry=None, intrinsics=None, resolver=None):
        self.prog = prog                 # ProgramIndex (see index.py)
        self.solver = solver
        self.ch = chooser or Chooser()
        self.reg = registry              # type registry (enums, structs)
        self.intr = intrinsics           # IntrinsicTable
        self.st = State()
        self.steps = 0
        self.max_steps = 2000000
        self.loop_bound = 64
        self.cur = []                    # stack of body names (for messages)
        self.bodies_run = set()
        self.intrinsics_hit = set()
        self.generic_bindings = {}       # 'S' -> 'ClnDatastore' etc
        self.summarize = ()              # names of pure scalar functions merged into one term per call
        self.abstract_mul = False
        self.trace_calls = bool(__import__('os').environ.get('VERIF_TRACE'))
        self.depth = 0

    @property
    def pc(self):
        return self.st.pc
    @property
    def events(self):
        return self.st.events
    @property
    def env(self):
        return self.st.env
    @env.setter
    def env(self, v):
        self.st.env = v

    def fresh(self, prefix, sort='I'):
        self.st.fresh_n += 1
        return sym.var('%s!%d' % (prefix, self.st.fresh_n), sort)

    def mul(self, x, y):
        """Product; symbolic x symbolic products are abstracted by an uninterpreted function when
        abstract_mul is set (scenario harnesses: implementation and oracle share the same product term, so
        equalities survive; every reported model is re-validated natively)."""
        if self.abstract_mul and isinstance(x, T) and isinstance(y, T):
            a, b = (x, y) if hash(x) <= hash(y) else (y, x)
            p = sym.uf('mul', 'I', a, b)
            memo = self.st.counters.setdefault('mulmemo', set())
            if p not in memo:
                memo.add(p)
                self.add_lemma(sym.ge(p, 0))
            return p
        return sym.mul(x, y)

    def violation_model(self, bad):
        """Model of pc /\\ bad with exact arithmetic (products de-abstracted); None if the violation
        only exists under the product abstraction."""
        if not self.feasible(bad):
            return None
        if not self.abstract_mul:
            return self.solver.model(self.pc, bad)
        memo = {}
        pc2 = [sym.exact_mul(c, memo) for c in self.pc]
        return self.solver.model(pc2, sym.exact_mul(bad, memo))

    def add_lemma(self, t):
        """A definitional constraint: always satisfiable, survives function summarisation."""
        self.st.lemmas.append(t)
        self.st.pc.append(t)

    def call_summarized(self, body, args):
        """Execute a pure function on all of its paths and merge them into one ite-term (function-level
        state merging).  The function must not write through its arguments."""
        base = len(self.pc)
        nlem = len(self.st.lemmas)
        saved_ch = self.ch
        results = []
        work = [[]]
        try:
            while work:
                prefix = work.pop()
                self.ch = Chooser(prefix)
                del self.st.pc[base:]
                for l in self.st.lemmas[nlem:]:
                    self.st.pc.append(l)
                nb = len(self.st.pc)
                try:
                    v = self.call_body(body, [copy_value(a) if isinstance(a, (Adt, Seq)) else a for a in args])
                    kind = 'ok'
                except Panic as e:
                    v = e
                    kind = 'panic'
                except Infeasible:
                    work.extend(self.ch.alts)
                    continue
                cond = sym.and_(*[c for c in self.st.pc[nb:] if c not in self.st.lemmas])
                results.append((kind, cond, v))
                work.extend(self.ch.alts)
        finally:
            self.ch = saved_ch
            del self.st.pc[base:]
            for l in self.st.lemmas[nlem:]:
                self.st.pc.append(l)
        panics = [(c, v) for k, c, v in results if k == 'panic']
        oks = [(c, v) for k, c, v in results if k == 'ok']
        if panics:
            pc_any = sym.or_(*[c for c, v in panics])
            if self.branch(pc_any, 'summary.panic'):
                raise panics[0][1]
        if not oks:
            raise Infeasible('summarised function has no returning path')
        for c, v in oks:
            if isinstance(v, (Adt, Seq, Ref)):
                raise Unsupported('summarised function returns an aggregate')
        out = oks[-1][1]
        for c, v in reversed(oks[:-1]):
            out = sym.ite(c, v, out)
        return out

    # ---- path condition / branching -----------------------------------------
    def assume(self, cond):
        if cond is True:
            return
        if cond is False:
            raise Infeasible('assume(false)')
        if self.solver.check(self.pc, cond) == 'unsat':
            raise Infeasible('assume unsat')
        self.pc.append(cond)

    def feasible(self, cond):
        if cond is True:
            return True
        if cond is False:
            return False
        return self.solver.check(self.pc, cond) == 'sat'

    def branch(self, cond, label=''):
        """Fork on a possibly symbolic bool; returns a Python bool."""
        if not isinstance(cond, T):
            return bool(cond)
        opts = []
        if self.feasible(cond):
            opts.append(True)
        nc = sym.not_(cond)
        if self.feasible(nc):
            opts.append(False)
        if not opts:
            raise Infeasible('both sides infeasible at ' + label)
        c = opts[self.ch.choose(len(opts), label)]
        self.pc.append(cond if c else nc)
        return c

    def choose(self, n, label=''):
        return self.ch.choose(n, label)

    def concretize(self, v, lo, hi, label=''):
        """Fork a symbolic integer over its feasible values in [lo, hi]; values outside the
        window are reported as BoundExceeded when feasible."""
        if not isinstance(v, T):
            return v
        opts = [k for k in range(lo, hi + 1) if self.feasible(sym.eq(v, k))]
        outside = self.feasible(sym.or_(sym.lt(v, lo), sym.gt(v, hi)))
        if outside:
            opts.append(None)
        if not opts:
            raise Infeasible('concretize: no value')
        c = opts[self.ch.choose(len(opts), label or 'concretize')]
        if c is None:
            self.pc.append(sym.or_(sym.lt(v, lo), sym.gt(v, hi)))
            raise BoundExceeded('value outside [%d,%d] at %s' % (lo, hi, label))
        self.pc.append(sym.eq(v, c))
        return c

    def event(self, *ev):
        self.events.append(ev)

    # ---- places -----------------------------------------------------------------
    def place_ref(self, frame, place):
        ref = Ref(frame, place.local)
        dc = None
        for pr in place.projs:
            k = pr[0]
            if k == 'deref':
                v = ref.get()
                ref = self.deref(v, place)
            elif k == 'field':
                cur = ref.get()
                if cur is UNINIT or cur is MOVED:
                    cur = Adt('?', None, {})
                    ref.set(cur)
                if isinstance(cur, Ref) and False:
                    pass
                if not isinstance(cur, Adt):
                    cur = self.as_adt(cur, place, ref)
                key = pr[1]
                if dc is not None:
                    if dc.startswith('variant#'):
                        key = (dc, pr[1])
                    dc = None
                ref = Ref(cur, key)
            elif k == 'downcast':
                dc = pr[1]
                cur = ref.get()
                if isinstance(cur, Adt) and not dc.startswith('variant#') and cur.variant is not None \
                        and cur.variant != dc and cur.ty != '?':
                    raise Unsupported('downcast of %r to %s in %s' % (cur, dc, place.text))
                if isinstance(cur, Adt) and cur.ty == '?' and cur.variant is None and not dc.startswith('variant#'):
                    cur.variant = dc
            elif k == 'index':
                seq, base = self.as_seq(ref.get(), place)
                idx = frame[pr[1]]
                if isinstance(idx, T):
                    idx = self.concretize(idx, 0, len(seq.items), 'index')
                n = (len(seq.items) - base) if not isinstance(ref.get(), Slice) else len(ref.get())
                if idx >= n:
                    raise Panic('index out of bounds: the len is %d but the index is %d' % (n, idx))
                ref = Ref(seq, base + idx)
            elif k == 'constindex':
                seq, base = self.as_seq(ref.get(), place)
                v = ref.get()
                n = len(v) if isinstance(v, Slice) else len(seq.items)
                idx = (n - pr[1]) if pr[2] else pr[1]
                ref = Ref(seq, base + idx)
            elif k == 'subslice':
                raise Unsupported('subslice projection ' + place.text)
        return ref

    def as_seq(self, v, place):
        if isinstance(v, Seq):
            return v, 0
        if isinstance(v, Slice):
            return v.seq, v.start
        raise Unsupported('indexing into %r (%s)' % (v, place.text))

    def as_adt(self, cur, place, ref):
        raise Unsupported('field access on non-aggregate %r in %s [%s]' % (cur, place.text, self.where()))

    def deref(self, v, place=None):
        if isinstance(v, Ref):
            return v
        if isinstance(v, Adt):
            if v.ty in ('Box', 'std::boxed::Box'):
                return self.deref(v.fields[0], place)
            if v.ty in ('Unique', 'NonNull', 'std::ptr::Unique', 'std::ptr::NonNull'):
                return self.deref(v.fields[0], place)
            if v.ty in ('Pin', 'std::pin::Pin'):
                return self.deref(v.fields[0], place)
        if isinstance(v, Slice):
            # deref of a fat pointer yields the unsized place: represent by a 1-slot cell holding the slice
            return Ref(Cell(v), 'v') if False else _SliceRef(v)
        raise Unsupported('deref of %r in %s [%s]' % (v, place.text if place else '?', self.where()))

    def read_place(self, frame, place):
        if not place.projs:
            v = frame.get(place.local, UNINIT)
            return v
        return self.place_ref(frame, place).get()

    def write_place(self, frame, place, v):
        if not place.projs:
            frame[place.local] = v
            return
        self.place_ref(frame, place).set(v)

    # ---- operands -----------------------------------------------------------------
    def operand(self, frame, op, body=None):
        if op.kind == 'const':
            return self.const(op.const, body)
        if op.kind == 'copy':
            v = self.read_place(frame, op.place)
            if isinstance(v, (Adt, Seq)):
                return copy_value(v)
            return v
        # move
        v = self.read_place(frame, op.place)
        if not op.place.projs:
            frame[op.place.local] = MOVED
        return v

    _INT_RE = re.compile(r'^(-?\d+)_(u8|u16|u32|u64|u128|usize|i8|i16|i32|i64|i128|isize)$')

    def const(self, txt, body=None):
        m = self._INT_RE.match(txt)
        if m:
            return int(m.group(1))
        if txt == 'true':
            return True
        if txt == 'false':
            return False
        if txt == '()':
            return unit()
        if txt.startswith('"'):
            return str_slice(_unescape(txt[1:-1]))
        if txt.startswith('b"'):
            s = Seq(list(_unescape_bytes(txt[2:-1])), 'array')
            return Ref(Cell(s), 'v')
        m = re.match(r"^'(.)'$", txt)
        if m:
            return ord(m.group(1))
        m = re.match(r'^([-+]?\d+(\.\d+)?(e[-+]?\d+)?)f(32|64)$', txt)
        if m:
            return Opaque('float', float(m.group(1)))
        if txt.startswith('ZeroSized: {closure@') and txt.endswith('}'):
            # a closure without captures is a zero-sized constant
            return Adt(txt[len('ZeroSized: '):], None, {}, [], meta=('created_in', body.name if body is not None else None))
        if txt.startswith('{alloc') or txt.startswith('{transmute') or txt.startswith('ZeroSized'):
            return Opaque('alloc', txt)
        # named constant / promoted / fn item / unit struct / enum unit variant
        return self.named_const(txt, body)

    def named_const(self, txt, body):
        name = norm_callee(txt)
        sc = self.prog.simple_const(txt, name, body)
        if sc is not None:
            return self.const(sc, body)
        b = self.prog.const_body(txt, name, body)
        if b is not None:
            key = ('const', b.name)
            return copy.deepcopy(self.call_body(b, []))
        v = self.intr.const(self, txt, name) if self.intr else None
        if v is not None:
            return v
        # enum unit variant / unit struct / fn item
        segs = [s for s in split_path(name) if s]
        if self.reg is not None and len(segs) >= 2:
            e = self.reg.enum_of_variant(segs[-2], segs[-1], '::'.join(segs[:-1]))
            if e is not None:
                return Adt(e, segs[-1], {})
        if self.prog.resolve_fn(txt, self) is not None or self.intr.lookup(name) is not None:
            return FnItem(txt)
        if re.match(r'^[A-Za-z_][\w:]*$', name) and segs[-1][:1].isupper():
            return Adt(name, None, {})
        return FnItem(txt)

    # ---- types --------------------------------------------------------------------
    def place_type(self, body, place):
        ty = body.locals.get(place.local)
        for pr in place.projs:
            k = pr[0]
            if k == 'field':
                ty = pr[2]
            elif k == 'deref':
                ty = pointee(ty) if ty else None
            elif k in ('index', 'constindex'):
                ty = elem_type(ty) if ty else None
            elif k == 'downcast':
                pass
        return ty

    # ---- rvalues ------------------------------------------------------------------
    def rvalue(self, frame, body, dest, rv):
        k = rv.kind
        if k == 'use':
            return self.operand(frame, rv.a, body)
        if k == 'ref':
            pl = rv.a
            # reference to an unsized deref of a fat pointer: &(*_x) where _x is a Slice -> the Slice itself
            r = self.place_ref(frame, pl)
            if isinstance(r, _SliceRef):
                return r.slice
            return r
        if k == 'binop':
            return self.binop(frame, body, dest, rv)
        if k == 'unop':
            v = self.operand(frame, rv.b, body)
            if rv.a == 'Not':
                if isinstance(v, bool) or (isinstance(v, T) and v.sort == 'B'):
                    return sym.not_(v)
                ty = sym.INT_TYPES.get(self.place_type(body, dest))
                if isinstance(v, int) and ty is not None:
                    return sym.wrap(~v, ty)
                raise Unsupported('bitwise Not on symbolic int')
            if rv.a == 'Neg':
                ty = sym.INT_TYPES.get(self.place_type(body, dest))
                return sym.wrap(sym.sub(0, v), ty) if ty else sym.sub(0, v)
            if rv.a == 'PtrMetadata':
                if isinstance(v, Slice):
                    return len(v)
                if isinstance(v, Ref) and isinstance(v.get(), Seq):
                    return len(v.get().items)
                raise Unsupported('PtrMetadata of %r' % (v,))
        if k == 'cast':
            return self.cast(frame, body, rv)
        if k == 'discriminant':
            v = self.read_place(frame, rv.a)
            return self.discriminant(v, self.place_type(body, rv.a))
        if k == 'len':
            v = self.read_place(frame, rv.a)
            if isinstance(v, Seq):
                return len(v.items)
            if isinstance(v, Slice):
                return len(v)
            raise Unsupported('Len of %r' % (v,))
        if k == 'tuple':
            return Adt('tuple', None, {i: self.operand(frame, o, body) for i, o in enumerate(rv.a)})
        if k == 'array':
            return Seq([self.operand(frame, o, body) for o in rv.a], 'array')
        if k == 'repeat':
            v = self.operand(frame, rv.a, body)
            n = rv.b
            m = re.match(r'^(\d+)(_usize)?$', n)
            if not m:
                c = self.const(n.replace('const ', ''), body)
                cnt = c
            else:
                cnt = int(m.group(1))
            return Seq([copy_value(v) for _ in range(cnt)], 'array')
        if k == 'closure':
            fields = {i: self.operand(frame, o, body) for i, (nm, o) in enumerate(rv.b)}
            head = rv.a
            kind = 'closure' if head.startswith('{closure') else 'coroutine'
            return Adt(head, 'variant#0' if kind == 'coroutine' else None, fields,
                       [nm for nm, o in rv.b], meta=('created_in', body.name))
        if k == 'adt':
            return self.aggregate(frame, body, dest, rv)
        if k == 'shallowbox':
            v = self.operand(frame, rv.a, body)
            return make_box_from_ptr(v)
        if k == 'nullop':
            if rv.a.startswith('UbChecks') or rv.a.startswith('ContractChecks'):
                return False
            raise Unsupported('nullop ' + rv.a)
        raise Unsupported('rvalue kind ' + k)

    def aggregate(self, frame, body, dest, rv):
        head = rv.a
        ops = [self.operand(frame, o, body) for o in rv.b]
        names = rv.c
        path = norm_callee(head)
        segs = [s for s in split_path(path) if s]
        fields = {i: v for i, v in enumerate(ops)}
        if len(segs) >= 3 and segs[-2] == 'Out' and segs[-3] == '__tokio_select_util':
            # tokio::select!'s output enum: _0.._{N-1}, Disabled; N = the BRANCHES const of this select
            n = self.prog.simple_const('::'.join(segs[:-3]) + '::BRANCHES', '::'.join(segs[:-3]) + '::BRANCHES', body)
            mm = re.match(r'^(\d+)_u32$', n or '')
            return Adt('::'.join(segs[:-1]), segs[-1], fields, names, meta=('select_n', int(mm.group(1)) if mm else None))
        # decide struct vs enum variant using the registry, falling back on the destination type
        if len(segs) >= 2 and self.reg is not None:
            e = self.reg.enum_of_variant(segs[-2], segs[-1], '::'.join(segs[:-1]))
            if e is not None:
                return Adt(e, segs[-1], fields, names)
        dty = self.place_type(body, dest)
        if dty is not None and len(segs) == 1 and self.reg is not None:
            # variants may be printed bare (`_40 = CREATE_OR_REPLACE;`, `_97 = Object(move _98);`): the destination type
            # names the enum
            th = type_head(dty)
            e = self.reg.enum_def(th)
            if e is None:
                full = self.reg.enum_of_variant(last_seg(th), segs[0], th)
                if full is not None:
                    return Adt(full, segs[0], fields, names)
            if e is not None and any(v[0] == segs[0] for v in e.variants):
                return Adt(e.full, segs[0], fields, names)
        if dty is not None and len(segs) >= 2:
            dh = last_seg(type_head(dty))
            if dh == segs[-2] and dh != segs[-1]:
                return Adt('::'.join(segs[:-1]), segs[-1], fields, names)
        ty = path
        if self.reg is not None:
            ty = self.reg.canon_struct(path)
        return Adt(ty, None, fields, names)

    def discriminant(self, v, ty=None):
        if isinstance(v, Adt):
            if v.variant is None:
                if v.ty == '?':
                    raise Unsupported('discriminant of untyped aggregate')
                return 0
            if isinstance(v.variant, int):
                return v.variant
            if v.variant.startswith('variant#'):
                return int(v.variant[8:])
            if isinstance(v.meta, tuple) and v.meta and v.meta[0] == 'select_n' and v.meta[1] is not None:
                return v.meta[1] if v.variant == 'Disabled' else int(v.variant[1:])
            idx = self.reg.variant_index(v.ty, v.variant)
            if idx is None:
                raise Unsupported('discriminant: unknown enum %s::%s [%s]' % (v.ty, v.variant, self.where()))
            return idx
        if isinstance(v, (int, T)) and not isinstance(v, bool):
            return v       # C-like enum carried as integer
        hook = getattr(v, 'discriminant', None)
        if hook is not None:
            return hook(self)
        raise Unsupported('discriminant of %r [%s]' % (v, self.where()))

    def binop(self, frame, body, dest, rv):
        op = rv.a
        x = self.operand(frame, rv.b, body)
        y = self.operand(frame, rv.c, body)
        if op in ('Eq', 'Ne', 'Lt', 'Le', 'Gt', 'Ge'):
            if isinstance(x, Adt) or isinstance(y, Adt):
                raise Unsupported('comparison of aggregates')
            if isinstance(x, (Ref, Slice)) or isinstance(y, (Ref, Slice)):
                if op in ('Eq', 'Ne') and isinstance(x, Ref) and isinstance(y, Ref):
                    r = x.same(y)
                    return r if op == 'Eq' else not r
                raise Unsupported('pointer comparison')
            f = {'Eq': sym.eq, 'Ne': sym.ne, 'Lt': sym.lt, 'Le': sym.le, 'Gt': sym.gt, 'Ge': sym.ge}[op]
            if isinstance(x, bool) and isinstance(y, bool):
                return f(int(x), int(y))
            return f(x, y)
        dty = self.place_type(body, dest)
        if op.endswith('WithOverflow'):
            m = re.match(r'^\((\w+), bool\)$', dty or '')
            ty = sym.INT_TYPES.get(m.group(1)) if m else None
            if ty is None:
                raise Unsupported('WithOverflow type ' + str(dty))
            base = op[:-12]
            exact = {'Add': sym.add, 'Sub': sym.sub, 'Mul': self.mul}[base](x, y)
            span = 1 if base in ('Add', 'Sub') else None
            return Adt('tuple', None, {0: sym.wrap(exact, ty, span), 1: sym.out_of_range(exact, ty)})
        ty = sym.INT_TYPES.get(dty) if dty else None
        if op in ('Add', 'Sub', 'Mul', 'AddUnchecked', 'SubUnchecked', 'MulUnchecked'):
            base = op.replace('Unchecked', '')
            exact = {'Add': sym.add, 'Sub': sym.sub, 'Mul': self.mul}[base](x, y)
            if ty is None:
                if isinstance(exact, int):
                    return exact
                raise Unsupported('arith on unknown type %s' % dty)
            return sym.wrap(exact, ty, 1 if base in ('Add', 'Sub') else None)
        if op in ('Div', 'Rem'):
            return self.divrem(op, x, y, ty)
        if op in ('BitAnd', 'BitOr', 'BitXor'):
            if isinstance(x, bool) or isinstance(y, bool) or (isinstance(x, T) and x.sort == 'B') or (isinstance(y, T) and y.sort == 'B'):
                if op == 'BitAnd':
                    return sym.and_(x, y)
                if op == 'BitOr':
                    return sym.or_(x, y)
                return sym.ne(x, y)
            if isinstance(x, int) and isinstance(y, int):
                return {'BitAnd': x & y, 'BitOr': x | y, 'BitXor': x ^ y}[op]
            return self.bitop_sym(op, x, y, ty)
        if op in ('Shl', 'Shr', 'ShlUnchecked', 'ShrUnchecked'):
            if isinstance(y, T):
                raise Unsupported('shift by symbolic amount')
            if op.startswith('Shl'):
                return sym.wrap(sym.mul(x, 1 << y), ty) if ty else sym.mul(x, 1 << y)
            return sym.div(x, 1 << y)
        if op == 'Cmp':
            lt = self.branch(sym.lt(x, y), 'cmp<')
            if lt:
                return Adt('std::cmp::Ordering', 'Less', {})
            eq = self.branch(sym.eq(x, y), 'cmp=')
            return Adt('std::cmp::Ordering', 'Equal' if eq else 'Greater', {})
        if op == 'Offset':
            raise Unsupported('pointer Offset')
        raise Unsupported('binop ' + op)

    def bitop_sym(self, op, x, y, ty):
        # x & (2^k - 1) == x mod 2^k ; anything else is unsupported
        for a, b in ((x, y), (y, x)):
            if isinstance(b, int) and op == 'BitAnd' and b >= 0 and (b & (b + 1)) == 0:
                return sym.mod(a, b + 1)
        if op == 'BitOr':
            # (a << k) | b  with 0 <= b < 2^k  ==  (a << k) + b : the usual way of assembling an integer from bytes.
            # Recognised when one side is provably a multiple of 2^k and the other provably below 2^k (solver decided).
            for a, b in ((x, y), (y, x)):
                for k in (8, 16, 32):
                    lim = 1 << k
                    try:
                        mult_ok = (isinstance(a, int) and a % lim == 0) or \
                                  (isinstance(a, T) and not self.feasible(sym.ne(sym.mod(a, lim), 0)))
                        small_ok = (isinstance(b, int) and 0 <= b < lim) or \
                                   (isinstance(b, T) and not self.feasible(sym.or_(sym.lt(b, 0), sym.ge(b, lim))))
                    except Exception:
                        mult_ok = small_ok = False
                    if mult_ok and small_ok:
                        return sym.add(a, b)
        raise Unsupported('symbolic bit operation %s' % op)

    def divrem(self, op, x, y, ty):
        if isinstance(x, int) and isinstance(y, int):
            if y == 0:
                raise Panic('attempt to divide by zero')
            q = abs(x) // abs(y)
            if (x < 0) != (y < 0):
                q = -q
            r = x - q * y
            return q if op == 'Div' else r
        if ty is not None and ty.signed:
            raise Unsupported('signed symbolic division')
        # unsigned: floor division; introduce fresh q, r with the division lemma so that the
        # solver never sees a symbolic div term
        if isinstance(y, int):
            if y == 0:
                raise Panic('attempt to divide by zero')
            memo = self.st.counters.setdefault('divmemo', {})
            key = (x, y)
            qr = memo.get(key)
            if qr is None:
                # one quotient/remainder pair per distinct (dividend term, divisor): identical divisions
                # share it, which keeps the non-linear part of the path condition small
                k = len(memo)
                q = sym.var('q!%d_%d' % (k, y))
                r = sym.var('r!%d_%d' % (k, y))
                memo[key] = (q, r)
                self.add_lemma(sym.and_(sym.eq(x, sym.add(sym.mul(q, y), r)), sym.le(0, r), sym.lt(r, y), sym.le(0, q)))
            else:
                q, r = qr
            return q if op == 'Div' else r
        raise Unsupported('division by symbolic divisor')

    def cast(self, frame, body, rv):
        v = self.operand(frame, rv.a, body)
        kind = rv.c.split('(')[0]
        target = rv.b.strip()
        if kind == 'IntToInt':
            ty = sym.INT_TYPES.get(target)
            if isinstance(v, bool):
                v = int(v)
            if isinstance(v, T) and v.sort == 'B':
                v = sym.ite(v, 1, 0)
            if isinstance(v, Adt):
                v = self.discriminant(v)
            if ty is None:
                if target in ('char',):
                    return v
                raise Unsupported('IntToInt to ' + target)
            sty = None
            if rv.a.place is not None:
                sty = sym.INT_TYPES.get(self.place_type(body, rv.a.place) or '')
            if sty is not None and sty.lo >= ty.lo and sty.hi <= ty.hi:
                return v            # widening: value preserved
            return sym.wrap(v, ty)
        if kind in ('Transmute', 'PtrToPtr', 'MutToConstPointer', 'PointerCoercion', 'PointerExposeProvenance',
                    'FnPtrToPtr', 'Subtype', 'PointerWithExposedProvenance'):
            if kind == 'PointerCoercion' and isinstance(v, Ref):
                # unsizing &[T; N] -> &[T]
                tgt = v.get() if not isinstance(v.obj, dict) or v.key in v.obj else None
                if isinstance(tgt, Seq) and (target.startswith('&[') or target.startswith('&mut [') or
                                             target.startswith('*const [') or target.startswith('*mut [')):
                    return Slice(tgt)
            return v
        if kind in ('IntToFloat', 'FloatToInt', 'FloatToFloat'):
            return Opaque('float', v)
        raise Unsupported('cast kind %s' % kind)

    # ---- body execution ---------------------------------------------------------------
    def where(self):
        return ' < '.join(reversed(self.cur[-3:]))

    def call_body(self, body, args):
        body.parse()
        self.bodies_run.add(body.name)
        if len(args) != len(body.params):
            raise Unsupported('arity mismatch calling %s: %d args for %d params' % (body.name, len(args), len(body.params)))
        frame = {}
        for (loc, ty), a in zip(body.params, args):
            frame[loc] = a
        self.cur.append(body.name[-70:])
        self.depth += 1
        if self.depth > 200:
            raise BoundExceeded('call depth')
        try:
            return self._run(body, frame)
        finally:
            self.cur.pop()
            self.depth -= 1

    def _run(self, body, frame):
        bb = 'bb0'
        blocks = body.blocks
        visits = {}
        while True:
            n = visits.get(bb, 0) + 1
            visits[bb] = n
            if n > self.loop_bound:
                raise BoundExceeded('loop bound %d at %s %s' % (self.loop_bound, body.name[-60:], bb))
            blk = blocks[bb]
            if blk is None:
                raise Unsupported('entered cleanup block %s of %s' % (bb, body.name))
            stmts, term = blk
            for s in stmts:
                self.steps += 1
                if s.kind == 'nop':
                    continue
                try:
                    if s.kind == 'assign':
                        v = self.rvalue(frame, body, s.place, s.rv)
                        self.write_place(frame, s.place, v)
                    elif s.kind == 'setdiscr':
                        self.set_discriminant(frame, body, s.place, s.idx)
                except (KeyError, AttributeError, TypeError, IndexError) as e:
                    raise Unsupported('internal %s: %s at `%s` [%s %s]' % (type(e).__name__, e, s.text[:160], body.name[-60:], bb))
            if self.steps > self.max_steps:
                raise BoundExceeded('step budget')
            self.steps += 1
            k = term.kind
            if k == 'goto':
                bb = term.target
            elif k == 'return':
                return frame.get('_0', UNINIT)
            elif k == 'switch':
                v = self.operand(frame, term.op, body)
                bb = self.switch(v, term)
            elif k == 'call':
                bb = self.do_call(frame, body, term, bb)
                if bb is None:
                    raise Unsupported('diverging call returned: ' + term.text[:100])
            elif k == 'assert':
                c = self.operand(frame, term.op, body)
                ok = self.branch(c if term.expected else sym.not_(c), 'assert')
                if not ok:
                    raise Panic(term.msg, body.name)
                bb = term.target
            elif k == 'drop':
                self.do_drop(frame, body, term.place)
                bb = term.target
            elif k == 'unreachable':
                raise Unsupported('reached `unreachable` in %s %s' % (body.name, bb))
            else:
                raise Unsupported('terminator ' + term.text[:80])

    def switch(self, v, term):
        if isinstance(v, bool):
            v = int(v)
        if isinstance(v, T) and v.sort == 'B':
            v = sym.ite(v, 1, 0)
        if not isinstance(v, T):
            for val, tgt in term.targets:
                if val == v:
                    return tgt
            if term.otherwise is None:
                raise Unsupported('switchInt without matching target: %r' % (v,))
            return term.otherwise
        opts = []
        for val, tgt in term.targets:
            c = sym.eq(v, val)
            if self.feasible(c):
                opts.append((c, tgt))
        if term.otherwise is not None:
            c = sym.and_(*[sym.ne(v, val) for val, tgt in term.targets])
            if self.feasible(c):
                opts.append((c, term.otherwise))
        if not opts:
            raise Infeasible('switch: nothing feasible')
        c, tgt = opts[self.ch.choose(len(opts), 'switch')]
        self.pc.append(c)
        return tgt

    def set_discriminant(self, frame, body, place, idx):
        ref = self.place_ref(frame, place) if place.projs else Ref(frame, place.local)
        cur = ref.get()
        ty = self.place_type(body, place)
        if isinstance(cur, Adt) and (cur.ty.startswith('{') or (isinstance(cur.variant, str) and cur.variant.startswith('variant#'))):
            cur.variant = 'variant#%d' % idx
            return
        name = self.reg.variant_name(type_head(ty), idx) if ty else None
        if name is None:
            raise Unsupported('SetDiscriminant on %s (%r)' % (ty, cur))
        if isinstance(cur, Adt):
            cur.variant = name
            cur.ty = self.reg.canon_enum(type_head(ty))
        else:
            ref.set(Adt(self.reg.canon_enum(type_head(ty)), name, {}))

    # ---- calls ------------------------------------------------------------------------
    def do_call(self, frame, body, term, bb):
        args = [self.operand(frame, a, body) for a in term.args]
        ret = self.invoke(term.callee, args, term=term, body=body)
        if term.target is None:
            raise Unsupported('call to diverging fn returned: ' + term.callee)
        self.write_place(frame, term.dest, ret)
        return term.target

    def invoke(self, callee_text, args, term=None, body=None):
        name = norm_callee(callee_text)
        if self.trace_calls:
            print('  ' * self.depth + 'CALL', name)
        # environment boundary first (so that crate-local impls of env traits can be intercepted)
        if self.env is not None:
            h = self.env.intercept(self, name, callee_text, args)
            if h is not None:
                return h[0]
        target = self.prog.resolve_fn(callee_text, self, args)
        if target is not None:
            if self.summarize and target.name.rsplit('::', 1)[-1] in self.summarize:
                return self.call_summarized(target, args)
            return self.call_body(target, args)
        f = self.intr.lookup(name)
        if f is not None:
            self.intrinsics_hit.add(name)
            try:
                return f(self, args, CallInfo(callee_text, name, term, body))
            except Unsupported as e:
                if ' {in ' not in str(e):
                    raise Unsupported('%s {in %s @ %s}' % (e, name, self.where()))
                raise
        raise Unsupported('callee %s  (raw: %s) [%s]' % (name, callee_text[:200], self.where()))

    def call_closure(self, clo, args):
        """Call a closure / fn item value with a list of argument values."""
        if isinstance(clo, Ref):
            tgt = clo.get()
            if isinstance(tgt, (Adt, FnItem)):
                b = self.prog.closure_body(tgt) if isinstance(tgt, Adt) else None
                if b is not None:
                    first = clo if not b.params[0][1].startswith('{') else tgt
                    return self.call_body(b, [first] + list(args))
                clo = tgt
        if isinstance(clo, FnItem):
            return self.invoke(clo.name, list(args))
        if isinstance(clo, Adt):
            b = self.prog.closure_body(clo)
            if b is None:
                # tuple-struct / enum-variant constructor used as a function (`.map_err(RpcError::General)`, `.map(Some)`)
                if not str(clo.ty).startswith('{') and not clo.fields:
                    return Adt(clo.ty, clo.variant, {i: a for i, a in enumerate(args)}, None, clo.meta)
                raise Unsupported('closure body not found for %r' % (clo,))
            pty = b.params[0][1]
            first = clo if pty.startswith('{') else Ref(Cell(clo), 'v')
            return self.call_body(b, [first] + list(args))
        raise Unsupported('call of non-callable %r' % (clo,))

    # ---- drops ------------------------------------------------------------------------
    def do_drop(self, frame, body, place):
        try:
            v = self.read_place(frame, place)
        except Unsupported:
            return
        self.drop_value(v)
        if not place.projs:
            frame[place.local] = MOVED

    def drop_value(self, v, depth=0):
        if v is MOVED or v is UNINIT or v is None or depth > 12:
            return
        hook = getattr(v, 'on_drop', None)
        if hook is not None:
            hook(self)
            return
        if isinstance(v, Adt):
            if v.ty in ('Arc', 'std::sync::Arc', 'Rc'):
                return
            if v.variant is not None and isinstance(v.variant, str) and v.variant.startswith('variant#'):
                # coroutine: drop the saved locals of the current suspend state and the upvars
                cur = v.variant
                for k, x in list(v.fields.items()):
                    if isinstance(k, tuple):
                        if k[0] == cur:
                            self.drop_value(x, depth + 1)
                    elif cur == 'variant#0':
                        self.drop_value(x, depth + 1)
                return
            for k, x in list(v.fields.items()):
                self.drop_value(x, depth + 1)
        elif isinstance(v, Seq):
            for x in v.items:
                self.drop_value(x, depth + 1)
        elif isinstance(v, Ref):
            # owning pointers (Box) are Adt('Box'); plain refs do not own
            return
        elif isinstance(v, Cell):
            self.drop_value(v.v, depth + 1)

class _SliceRef(Ref):
    """Result of dereferencing a fat pointer: `&(*p)` gives the slice back; element projection works."""
    __slots__ = ('slice',)
    def __init__(self, sl):
        Ref.__init__(self, sl.seq, sl.start)
        self.slice = sl
    def get(self):
        return self.slice
    def set(self, v):
        raise Unsupported('store through unsized place')

class CallInfo:
    __slots__ = ('raw', 'name', 'term', 'body')
    def __init__(self, raw, name, term, body):
        self.raw = raw
        self.name = name
        self.term = term
        self.body = body
    def dest_type(self, m):
        if self.term is None:
            return None
        return m.place_type(self.body, self.term.dest)
    def generic_args(self):
        """Top-level turbofish/type arguments found in the raw callee text, in order."""
        out = []
        for seg in split_path(self.raw):
            seg = seg.strip()
            if seg.startswith('<') and not seg.startswith('<impl'):
                out.append(seg[1:-1])
        return out

def make_box(v, ty='Box'):
    cell = Cell(v)
    return Adt('Box', None, {0: Adt('Unique', None, {0: Adt('NonNull', None, {0: Ref(cell, 'v')})}), 1: unit()})

def make_box_from_ptr(p):
    return Adt('Box', None, {0: Adt('Unique', None, {0: Adt('NonNull', None, {0: p})}), 1: unit()})

def box_ref(b):
    """The Ref inside a Box value."""
    v = b
    while isinstance(v, Adt):
        v = v.fields[0]
    return v

def str_slice(b):
    if isinstance(b, str):
        b = b.encode()
    return Slice(Seq(list(b), 'str'))

def pointee(ty):
    ty = ty.strip()
    m = re.match(r"^&('\w+ )?(mut )?(.*)$", ty, re.S)
    if m:
        return m.group(3)
    m = re.match(r'^\*(const|mut) (.*)$', ty, re.S)
    if m:
        return m.group(2)
    m = re.match(r'^(?:std::boxed::)?Box<(.*)>$', ty, re.S)
    if m:
        return split_top(m.group(1))[0]
    return None

def elem_type(ty):
    ty = ty.strip()
    if ty.startswith('['):
        inner = ty[1:-1]
        k = find_top(inner, '; ')
        return inner[:k] if k >= 0 else inner
    return None

def _unescape(s):
    return _unescape_bytes(s)

def _unescape_bytes(s):
    out = bytearray()
    i = 0
    while i < len(s):
        c = s[i]
        if c == '\\':
            n = s[i + 1]
            if n == 'n':
                out.append(10); i += 2
            elif n == 't':
                out.append(9); i += 2
            elif n == 'r':
                out.append(13); i += 2
            elif n == '0':
                out.append(0); i += 2
            elif n == '\\':
                out.append(92); i += 2
            elif n == '"':
                out.append(34); i += 2
            elif n == "'":
                out.append(39); i += 2
            elif n == 'x':
                out.append(int(s[i + 2:i + 4], 16)); i += 4
            elif n == 'u':
                j = s.index('}', i)
                out.extend(chr(int(s[i + 3:j], 16)).encode()); i = j + 1
            else:
                out.append(ord(n)); i += 2
        else:
            out.extend(c.encode())
            i += 1
    return bytes(out)

# ----------------------------------------------------------------------------
# exploration driver (re-execution DFS)
# ----------------------------------------------------------------------------
class PathResult:
    __slots__ = ('outcome', 'value', 'machine', 'trace', 'labels', 'error')
    def __init__(self, outcome, value, machine, error=None):
        self.outcome = outcome        # 'ok' | 'panic' | 'infeasible' | 'unsupported' | 'bound'
        self.value = value
        self.machine = machine
        self.trace = list(machine.ch.trace)
        self.labels = list(machine.ch.labels)
        self.error = error

def explore(make_machine, run, max_paths=200000, on_path=None, order_seed=0):
    """Exhaustive DFS over Chooser decisions.  make_machine(chooser) -> Machine;
    run(machine) -> value.  Yields PathResult for every completed path."""
    import random
    rnd = random.Random(order_seed)
    work = [[]]
    n = 0
    while work:
        prefix = work.pop()
        ch = Chooser(prefix)
        m = make_machine(ch)
        try:
            v = run(m)
            res = PathResult('ok', v, m)
        except Panic as e:
            res = PathResult('panic', None, m, e)
        except Infeasible as e:
            res = PathResult('infeasible', None, m, e)
        except Unsupported as e:
            res = PathResult('unsupported', None, m, e)
        except BoundExceeded as e:
            res = PathResult('bound', None, m, e)
        alts = ch.alts
        if order_seed:
            rnd.shuffle(alts)
        work.extend(reversed(alts))
        n += 1
        yield res
        if n >= max_paths:
            raise BoundExceeded('path budget %d exhausted' % max_paths)
