"""More std contracts: the combinators and container helpers that ordinary refactorings reach for
(Option / Result / bool adapters, Vec::drain / retain / truncate ..., arrays, slices, extra iterator adapters,
collect into FuturesUnordered).  Found missing by the benign-refactoring sweep (DESIGN 8): a behaviour-preserving
rewrite must not push a check to exit 2.

Conventions as in intrinsics.py / lib_std.py: a closure result that is a symbolic bool is branched on with m.branch;
Option/Result values are Adt('Option'|'Result', variant, {0: payload})."""
import re
from . import sym
from .sym import T
from .values import Adt, Ref, Seq, Slice, Cell, FnItem, Opaque, MOVED, unit
from .machine import Unsupported, Panic, last_seg, type_head
from .intrinsics import (I, some, none, ok, err, deref_val, clone_value, is_variant, _opt, _res, tuple_)
from . import lib_std
from .lib_std import (IterBase, SliceIter, MapIt, Rev, as_iter, seq_of, vec_target, value_eq)

def _truth(m, v, label):
    return m.branch(v, label) if isinstance(v, T) else bool(v)

def _call(m, f, xs):
    return m.call_closure(f, xs)

# ---- bool ---------------------------------------------------------------------------------------------
@I.rx(r'(^|::)bool::<impl bool>::then_some$|^bool::then_some$')
def _bool_then_some(m, args, ci):
    return some(args[1]) if _truth(m, args[0], 'bool::then_some') else none()

@I.rx(r'(^|::)bool::<impl bool>::then$|^bool::then$')
def _bool_then(m, args, ci):
    return some(_call(m, args[1], [])) if _truth(m, args[0], 'bool::then') else none()

# ---- Option -------------------------------------------------------------------------------------------
def _o(name):
    return ('std::option::Option::' + name, 'Option::' + name, 'core::option::Option::' + name)

@I.add(*_o('is_some_and'))
def _opt_is_some_and(m, args, ci):
    o = _opt(args[0])
    if o.variant == 'None':
        return False
    return _call(m, args[1], [o.fields[0]])

@I.add(*_o('is_none_or'))
def _opt_is_none_or(m, args, ci):
    o = _opt(args[0])
    if o.variant == 'None':
        return True
    return _call(m, args[1], [o.fields[0]])

@I.add(*_o('map_or'))
def _opt_map_or(m, args, ci):
    o = _opt(args[0])
    return args[1] if o.variant == 'None' else _call(m, args[2], [o.fields[0]])

@I.add(*_o('map_or_else'))
def _opt_map_or_else(m, args, ci):
    o = _opt(args[0])
    return _call(m, args[1], []) if o.variant == 'None' else _call(m, args[2], [o.fields[0]])

@I.add(*_o('or_else'))
def _opt_or_else(m, args, ci):
    o = _opt(args[0])
    return o if o.variant == 'Some' else _call(m, args[1], [])

@I.add(*_o('and'))
def _opt_and(m, args, ci):
    o = _opt(args[0])
    return args[1] if o.variant == 'Some' else none()

@I.add(*_o('xor'))
def _opt_xor(m, args, ci):
    a, b = _opt(args[0]), _opt(args[1])
    if a.variant == 'Some' and b.variant == 'None':
        return a
    if a.variant == 'None' and b.variant == 'Some':
        return b
    return none()

@I.add(*_o('zip'))
def _opt_zip(m, args, ci):
    a, b = _opt(args[0]), _opt(args[1])
    if a.variant == 'Some' and b.variant == 'Some':
        return some(tuple_(a.fields[0], b.fields[0]))
    return none()

@I.add(*_o('flatten'))
def _opt_flatten(m, args, ci):
    o = _opt(args[0])
    return o.fields[0] if o.variant == 'Some' else none()

@I.add(*_o('transpose'))
def _opt_transpose(m, args, ci):
    o = _opt(args[0])
    if o.variant == 'None':
        return ok(none())
    r = _res(o.fields[0])
    return ok(some(r.fields[0])) if r.variant == 'Ok' else err(r.fields[0])

@I.add(*_o('insert'))
def _opt_insert(m, args, ci):
    r = args[0]
    new = some(args[1])
    r.set(new)
    return Ref(new, 0)

@I.add(*_o('replace'))
def _opt_replace(m, args, ci):
    r = args[0]
    old = r.get()
    r.set(some(args[1]))
    return old

@I.add(*(_o('get_or_insert_with') + _o('get_or_insert')))
def _opt_get_or_insert(m, args, ci):
    r = args[0]
    o = r.get()
    if o.variant == 'None':
        v = _call(m, args[1], []) if ci.name.endswith('_with') else args[1]
        o = some(v)
        r.set(o)
    return Ref(o, 0)

@I.add(*(_o('as_deref') + _o('as_deref_mut')))
def _opt_as_deref(m, args, ci):
    o = _opt(args[0])
    if o.variant == 'None':
        return none()
    inner = o.fields[0]
    if isinstance(inner, Seq):
        return some(Slice(inner))
    if isinstance(inner, Adt) and inner.ty in ('Box', 'Arc'):
        return some(inner.fields[0])
    return some(Ref(o, 0))

@I.add(*_o('inspect'))
def _opt_inspect(m, args, ci):
    o = _opt(args[0])
    if o.variant == 'Some':
        _call(m, args[1], [Ref(o, 0)])
    return o

@I.add(*_o('unwrap_unchecked'))
def _opt_unwrap_unchecked(m, args, ci):
    o = _opt(args[0])
    if o.variant == 'None':
        raise Panic('undefined behaviour: Option::unwrap_unchecked on None')
    return o.fields[0]

# ---- Result -------------------------------------------------------------------------------------------
def _r(name):
    return ('std::result::Result::' + name, 'Result::' + name, 'core::result::Result::' + name)

@I.add(*_r('is_ok_and'))
def _res_is_ok_and(m, args, ci):
    r = _res(args[0])
    return _call(m, args[1], [r.fields[0]]) if r.variant == 'Ok' else False

@I.add(*_r('is_err_and'))
def _res_is_err_and(m, args, ci):
    r = _res(args[0])
    return _call(m, args[1], [r.fields[0]]) if r.variant == 'Err' else False

@I.add(*_r('map_or'))
def _res_map_or(m, args, ci):
    r = _res(args[0])
    return _call(m, args[2], [r.fields[0]]) if r.variant == 'Ok' else args[1]

@I.add(*_r('map_or_else'))
def _res_map_or_else(m, args, ci):
    r = _res(args[0])
    return _call(m, args[2], [r.fields[0]]) if r.variant == 'Ok' else _call(m, args[1], [r.fields[0]])

@I.add(*_r('or_else'))
def _res_or_else(m, args, ci):
    r = _res(args[0])
    return r if r.variant == 'Ok' else _call(m, args[1], [r.fields[0]])

@I.add(*_r('unwrap_or_else'))
def _res_unwrap_or_else(m, args, ci):
    r = _res(args[0])
    return r.fields[0] if r.variant == 'Ok' else _call(m, args[1], [r.fields[0]])

@I.add(*(_r('unwrap_err') + _r('expect_err')))
def _res_unwrap_err(m, args, ci):
    r = _res(args[0])
    if r.variant == 'Ok':
        raise Panic('called `Result::unwrap_err()` on an `Ok` value')
    return r.fields[0]

@I.add(*_r('and'))
def _res_and(m, args, ci):
    r = _res(args[0])
    return args[1] if r.variant == 'Ok' else r

@I.add(*_r('or'))
def _res_or(m, args, ci):
    r = _res(args[0])
    return r if r.variant == 'Ok' else args[1]

@I.add(*(_r('as_ref') + _r('as_mut')))
def _res_as_ref(m, args, ci):
    r = _res(args[0])
    return Adt(r.ty, r.variant, {0: Ref(r, 0)})

@I.add(*_r('transpose'))
def _res_transpose(m, args, ci):
    r = _res(args[0])
    if r.variant == 'Err':
        return some(err(r.fields[0]))
    o = _opt(r.fields[0])
    return some(ok(o.fields[0])) if o.variant == 'Some' else none()

@I.add(*(_r('inspect') + _r('inspect_err')))
def _res_inspect(m, args, ci):
    r = _res(args[0])
    want = 'Err' if ci.name.endswith('_err') else 'Ok'
    if r.variant == want:
        _call(m, args[1], [Ref(r, 0)])
    return r

@I.add(*(_r('cloned') + _r('copied')))
def _res_cloned(m, args, ci):
    r = _res(args[0])
    if r.variant == 'Err':
        return r
    return ok(clone_value(m, deref_val(r.fields[0])))

# ---- Vec / slices -------------------------------------------------------------------------------------
class OwnedIter(IterBase):
    """Owning double-ended iterator over a list of values (vec::Drain, vec::IntoIter, array::IntoIter)."""
    def __init__(self, items):
        self.items = list(items)
    def next(self, m):
        return self.items.pop(0) if self.items else None
    def next_back(self, m):
        return self.items.pop() if self.items else None
    def remaining(self):
        return len(self.items)
    def on_drop(self, m):
        for x in self.items:
            m.drop_value(x)
        self.items = []

def _range_bounds(m, r, n):
    """(start, end) of a Range / RangeFrom / RangeTo / RangeFull / RangeInclusive aggregate over a length n."""
    r = deref_val(r) if isinstance(r, Ref) else r
    name = last_seg(r.ty) if isinstance(r, Adt) else ''
    f = r.fields if isinstance(r, Adt) else {}
    def c(x):
        return m.concretize(x, 0, n + 1, 'range bound') if isinstance(x, T) else x
    if name == 'RangeFull' or not f:
        return 0, n
    if name == 'Range':
        return c(f[0]), c(f[1])
    if name == 'RangeFrom':
        return c(f[0]), n
    if name == 'RangeTo':
        return 0, c(f[0])
    if name == 'RangeInclusive':
        return c(f[0]), c(f[1]) + 1
    if name == 'RangeToInclusive':
        return 0, c(f[0]) + 1
    raise Unsupported('range kind %r' % (r,))

@I.rx(r'^(std::vec::)?Vec::drain$')
def _vec_drain(m, args, ci):
    s = vec_target(args[0])
    a, b = _range_bounds(m, args[1], len(s.items))
    if a > b:
        raise Panic('slice index starts at %d but ends at %d' % (a, b))
    if b > len(s.items):
        raise Panic('range end index %d out of range for slice of length %d' % (b, len(s.items)))
    out = s.items[a:b]
    del s.items[a:b]
    return OwnedIter(out)

@I.rx(r'^(std::vec::)?Vec::truncate$')
def _vec_truncate(m, args, ci):
    s = vec_target(args[0])
    n = args[1]
    if isinstance(n, T):
        n = m.concretize(n, 0, len(s.items) + 1, 'truncate')
    for x in s.items[n:]:
        m.drop_value(x)
    del s.items[n:]
    return unit()

@I.rx(r'^(std::vec::)?Vec::retain(_mut)?$')
def _vec_retain(m, args, ci):
    s = vec_target(args[0])
    keep = []
    for i in range(len(s.items)):
        if _truth(m, _call(m, args[1], [Ref(s, i)]), 'retain'):
            keep.append(s.items[i])
        else:
            m.drop_value(s.items[i])
    s.items[:] = keep
    return unit()

@I.rx(r'^(std::vec::)?Vec::insert$')
def _vec_insert(m, args, ci):
    s = vec_target(args[0])
    i = args[1]
    if isinstance(i, T):
        i = m.concretize(i, 0, len(s.items) + 1, 'insert')
    if i > len(s.items):
        raise Panic('insertion index (is %d) should be <= len (is %d)' % (i, len(s.items)))
    s.items.insert(i, args[2])
    return unit()

@I.rx(r'^(std::vec::)?Vec::swap_remove$')
def _vec_swap_remove(m, args, ci):
    s = vec_target(args[0])
    i = args[1]
    if isinstance(i, T):
        i = m.concretize(i, 0, len(s.items) + 1, 'swap_remove')
    if i >= len(s.items):
        raise Panic('swap_remove index (is %d) should be < len (is %d)' % (i, len(s.items)))
    v = s.items[i]
    last = s.items.pop()
    if i < len(s.items):
        s.items[i] = last
    return v

@I.rx(r'^(std::vec::)?Vec::append$')
def _vec_append(m, args, ci):
    a, b = vec_target(args[0]), vec_target(args[1])
    a.items.extend(b.items)
    b.items[:] = []
    return unit()

@I.rx(r'^(std::vec::)?Vec::split_off$')
def _vec_split_off(m, args, ci):
    s = vec_target(args[0])
    i = args[1]
    if isinstance(i, T):
        i = m.concretize(i, 0, len(s.items) + 1, 'split_off')
    if i > len(s.items):
        raise Panic('`at` split index (is %d) should be <= len (is %d)' % (i, len(s.items)))
    out = Seq(s.items[i:], s.kind)
    del s.items[i:]
    return out

@I.rx(r'^(core::slice::|std::slice::)?<impl \[.*\]>::(first|last)(_mut)?$')
def _slice_first_last(m, args, ci):
    s, a, b = seq_of(args[0])
    if b - a == 0:
        return none()
    k = a if '::first' in ci.name else b - 1
    return some(Ref(s, k))

@I.rx(r'^(core::slice::|std::slice::)?<impl \[.*\]>::split_at(_mut)?$')
def _slice_split_at(m, args, ci):
    s, a, b = seq_of(args[0])
    mid = args[1]
    if isinstance(mid, T):
        mid = m.concretize(mid, 0, b - a + 1, 'split_at')
    if mid > b - a:
        raise Panic('mid > len')
    return tuple_(Slice(s, a, a + mid), Slice(s, a + mid, b))

@I.rx(r'^(core::slice::|std::slice::)?<impl \[.*\]>::(split_first|split_last)$')
def _slice_split_first(m, args, ci):
    s, a, b = seq_of(args[0])
    if b - a == 0:
        return none()
    if ci.name.endswith('split_first'):
        return some(tuple_(Ref(s, a), Slice(s, a + 1, b)))
    return some(tuple_(Ref(s, b - 1), Slice(s, a, b - 1)))

@I.rx(r'^(core::slice::|std::slice::)?<impl \[.*\]>::contains$')
def _slice_contains(m, args, ci):
    s, a, b = seq_of(args[0])
    x = deref_val(args[1])
    acc = False
    for k in range(a, b):
        e = value_eq(m, s.items[k], x)
        acc = e if acc is False else sym.or_(acc, e)
    return acc

@I.rx(r'^(core::slice::|std::slice::)?<impl \[.*\]>::(starts_with|ends_with)$')
def _slice_starts_with(m, args, ci):
    s, a, b = seq_of(args[0])
    t, c, d = seq_of(args[1])
    n = d - c
    if n > b - a:
        return False
    off = a if ci.name.endswith('starts_with') else b - n
    acc = True
    for k in range(n):
        e = value_eq(m, s.items[off + k], t.items[c + k])
        acc = e if acc is True else sym.and_(acc, e)
    return acc

class WindowsIt(IterBase):
    def __init__(self, s, a, b, n, step):
        self.s, self.a, self.b, self.n, self.step = s, a, b, n, step
    def next(self, m):
        if self.a + self.n > self.b:
            if self.step == self.n and self.a < self.b and getattr(self, 'ragged', False):
                out = Slice(self.s, self.a, self.b)
                self.a = self.b
                return out
            return None
        out = Slice(self.s, self.a, self.a + self.n)
        self.a += self.step
        return out

@I.rx(r'^(core::slice::|std::slice::)?<impl \[.*\]>::(windows|chunks|chunks_exact)$')
def _slice_windows(m, args, ci):
    s, a, b = seq_of(args[0])
    n = args[1]
    if isinstance(n, T):
        n = m.concretize(n, 0, 64, 'windows')
    if n == 0:
        raise Panic('window / chunk size must be non-zero')
    meth = ci.name.rsplit('::', 1)[1]
    it = WindowsIt(s, a, b, n, 1 if meth == 'windows' else n)
    it.ragged = meth == 'chunks'
    return it

@I.rx(r'^(core::slice::|std::slice::)?<impl \[.*\]>::(iter|iter_mut)$')
def _slice_iter2(m, args, ci):
    s, a, b = seq_of(args[0])
    return SliceIter(s, a, b, by_ref=True)

@I.rx(r'^(core::slice::|std::slice::|alloc::slice::)?<impl \[.*\]>::concat$|^(alloc|std)::slice::Concat')
def _slice_concat(m, args, ci):
    s, a, b = seq_of(args[0])
    out = []
    kind = 'vec'
    for k in range(a, b):
        t, c, d = seq_of(s.items[k] if not isinstance(s.items[k], Ref) else s.items[k])
        out.extend(t.items[c:d])
        if t.kind == 'str':
            kind = 'str'
    return Seq(out, kind)

@I.rx(r'^(core::slice::|std::slice::)?<impl \[.*\]>::(copy_from_slice|clone_from_slice)$')
def _slice_copy_from(m, args, ci):
    s, a, b = seq_of(args[0])
    t, c, d = seq_of(args[1])
    if b - a != d - c:
        raise Panic('source slice length (%d) does not match destination slice length (%d)' % (d - c, b - a))
    for k in range(b - a):
        s.items[a + k] = t.items[c + k]
    return unit()

@I.rx(r'^(core::slice::|std::slice::)?<impl \[.*\]>::fill$')
def _slice_fill(m, args, ci):
    s, a, b = seq_of(args[0])
    for k in range(a, b):
        s.items[k] = args[1]
    return unit()

# ---- arrays -------------------------------------------------------------------------------------------
@I.rx(r'(^|::)array::<impl \[.*\]>::map$')
def _array_map(m, args, ci):
    s, a, b = seq_of(args[0])
    return Seq([_call(m, args[1], [s.items[k]]) for k in range(a, b)], s.kind if s.kind != 'str' else 'vec')

@I.rx(r'(^|::)array::<impl \[.*\]>::(as_slice|as_mut_slice|each_ref)$')
def _array_as_slice(m, args, ci):
    s, a, b = seq_of(args[0])
    return Slice(s, a, b)


# ---- Extend / FromIterator ----------------------------------------------------------------------------
@I.rx(r'^<(std::vec::)?Vec as (std::iter::)?Extend>::extend$|^<(std::string::)?String as (std::iter::)?Extend>::extend$', prio=1)
def _vec_extend_any(m, args, ci):
    """extend from any IntoIterator: a Vec / array (by value), a slice or reference (cloned elements), an iterator."""
    tgt = vec_target(args[0])
    src = args[1]
    if isinstance(src, IterBase) or (isinstance(src, Ref) and isinstance(src.get(), IterBase)):
        it = as_iter(m, src)
        while True:
            x = it.next(m)
            if x is None:
                break
            tgt.items.append(deref_val(x) if isinstance(x, Ref) and tgt.kind == 'str' else x)
        return unit()
    if isinstance(src, Seq):
        tgt.items.extend(src.items)
        return unit()
    if isinstance(src, (Ref, Slice)):
        s, a, b = seq_of(src)
        tgt.items.extend(clone_value(m, x) for x in s.items[a:b])
        return unit()
    if isinstance(src, Adt) and src.variant in ('Some', 'None'):
        if src.variant == 'Some':
            tgt.items.append(src.fields[0])
        return unit()
    raise Unsupported('extend from %r' % (src,))


# ---- more iterator terminals ----------------------------------------------------------------------------
def _extreme(m, it, key, want_max, label):
    best = None
    bk = None
    while True:
        x = it.next(m)
        if x is None:
            break
        k = key(x)
        if best is None:
            best, bk = x, k
            continue
        # max keeps the last of equal elements, min the first (std semantics)
        better = sym.ge(k, bk) if want_max else sym.lt(k, bk)
        if _truth(m, better, label):
            best, bk = x, k
    return none() if best is None else some(best)

@I.rx(r'^<.* as (Iterator|DoubleEndedIterator)>::(max|min|max_by_key|min_by_key)$|^(std|core)::iter::Iterator::(max|min|max_by_key|min_by_key)$', prio=1)
def _iter_extreme(m, args, ci):
    meth = ci.name.rsplit('::', 1)[1]
    it = as_iter(m, args[0])
    if meth in ('max', 'min'):
        key = lambda x: deref_val(x) if isinstance(x, Ref) else x
    else:
        f = args[1]
        key = lambda x: _call(m, f, [Ref(Cell(x), 'v')])
    return _extreme(m, it, key, meth.startswith('max'), meth)

@I.rx(r'^(core::slice::|std::slice::)?<impl \[.*\]>::(binary_search|binary_search_by_key|binary_search_by)$')
def _slice_binary_search(m, args, ci):
    """Specified behaviour only: on a slice sorted by the key, Ok(index of *a* match) or Err(insertion point).  The
    implementation's probe sequence is followed (std's loop), so that an unsorted slice or duplicate keys give what std
    gives."""
    s, a, b = seq_of(args[0])
    meth = ci.name.rsplit('::', 1)[1]
    def cmp_at(i):
        e = Ref(s, a + i)
        if meth == 'binary_search':
            k, t = deref_val(e), deref_val(args[1])
        elif meth == 'binary_search_by_key':
            k, t = _call(m, args[2], [e]), deref_val(args[1])
        else:
            o = _call(m, args[1], [e])
            return o.variant
        if _truth(m, sym.lt(k, t), 'bsearch<'):
            return 'Less'
        return 'Equal' if _truth(m, sym.eq(k, t), 'bsearch=') else 'Greater'
    size = b - a
    if size == 0:
        return err(0)
    base = 0
    while size > 1:
        half = size // 2
        mid = base + half
        if cmp_at(mid) != 'Greater':
            base = mid
        size -= half
    c = cmp_at(base)
    if c == 'Equal':
        return ok(base)
    return err(base + (1 if c == 'Less' else 0))

# ---- HashSet as a list; membership decided by the solver ---------------------------------------------------
class HSet:
    def __init__(self):
        self.items = []
    def clone_hook(self, m):
        h = HSet()
        h.items = [clone_value(m, x) for x in self.items]
        return h

def _hs_has(m, hs, v):
    for x in hs.items:
        if _truth(m, value_eq(m, x, v), 'HashSet.eq'):
            return True
    return False

@I.rx(r'(^|::)(HashSet|BTreeSet)::(new|with_capacity)$|^<(std::collections::)?(HashSet|BTreeSet) as Default>::default$')
def _hs_new(m, args, ci):
    return HSet()

@I.rx(r'(^|::)(HashSet|BTreeSet)::insert$')
def _hs_insert(m, args, ci):
    hs = deref_val(args[0])
    if _hs_has(m, hs, args[1]):
        return False
    hs.items.append(args[1])
    return True

@I.rx(r'(^|::)(HashSet|BTreeSet)::contains$')
def _hs_contains(m, args, ci):
    return _hs_has(m, deref_val(args[0]), deref_val(args[1]))

@I.rx(r'(^|::)(HashSet|BTreeSet)::remove$')
def _hs_remove(m, args, ci):
    hs = deref_val(args[0])
    v = deref_val(args[1])
    for i, x in enumerate(hs.items):
        if _truth(m, value_eq(m, x, v), 'HashSet.eq'):
            del hs.items[i]
            return True
    return False

@I.rx(r'(^|::)(HashSet|BTreeSet)::(len|is_empty)$')
def _hs_len(m, args, ci):
    hs = deref_val(args[0])
    return len(hs.items) if ci.name.endswith('len') else len(hs.items) == 0

# ---- ranges -------------------------------------------------------------------------------------------
@I.rx(r'(^|::)RangeInclusive::new$')
def _range_incl_new(m, args, ci):
    return Adt('std::ops::RangeInclusive', None, {0: args[0], 1: args[1], 2: False}, ['start', 'end', 'exhausted'])

@I.rx(r'(^|::)(RangeInclusive|Range|RangeFrom|RangeTo|RangeToInclusive)::contains$')
def _range_contains(m, args, ci):
    r = deref_val(args[0])
    x = deref_val(args[1])
    name = last_seg(r.ty)
    f = r.fields
    if name == 'RangeInclusive':
        return sym.and_(sym.le(f[0], x), sym.le(x, f[1]))
    if name == 'Range':
        return sym.and_(sym.le(f[0], x), sym.lt(x, f[1]))
    if name == 'RangeFrom':
        return sym.le(f[0], x)
    if name == 'RangeTo':
        return sym.lt(x, f[0])
    return sym.le(x, f[0])

# ---- monotonic clocks -----------------------------------------------------------------------------------
@I.rx(r'(^|::)(tokio::time::|std::time::)?Instant::now$')
def _instant_now(m, args, ci):
    if m.env is None or not hasattr(m.env, 'now_ns'):
        raise Unsupported('Instant::now without an environment clock')
    return Adt('Instant', None, {0: m.env.now_ns(m)})

@I.rx(r'(^|::)Instant::elapsed$')
def _instant_elapsed(m, args, ci):
    a = deref_val(args[0]) if isinstance(args[0], Ref) else args[0]
    now = m.env.now_ns(m)
    d = sym.sub(now, a.fields[0])
    return lib_std.dur(sym.ite(sym.lt(d, 0), 0, d))

@I.rx(r'(^|::)Instant::(duration_since|saturating_duration_since)$')
def _instant_since(m, args, ci):
    a = deref_val(args[0]) if isinstance(args[0], Ref) else args[0]
    b = deref_val(args[1]) if isinstance(args[1], Ref) else args[1]
    d = sym.sub(a.fields[0], b.fields[0])
    return lib_std.dur(sym.ite(sym.lt(d, 0), 0, d))

@I.rx(r'(^|::)Instant::checked_duration_since$')
def _instant_checked_since(m, args, ci):
    a = deref_val(args[0]) if isinstance(args[0], Ref) else args[0]
    b = deref_val(args[1]) if isinstance(args[1], Ref) else args[1]
    if _truth(m, sym.lt(a.fields[0], b.fields[0]), 'Instant::checked_duration_since'):
        return none()
    return some(lib_std.dur(sym.sub(a.fields[0], b.fields[0])))

@I.rx(r'^<(tokio::time::|std::time::)?Instant as (std::ops::|core::ops::)?(Add|Sub)>::(add|sub)$')
def _instant_addsub(m, args, ci):
    a = deref_val(args[0]) if isinstance(args[0], Ref) else args[0]
    o = deref_val(args[1]) if isinstance(args[1], Ref) else args[1]
    if isinstance(o, Adt) and last_seg(o.ty) == 'Instant':
        d = sym.sub(a.fields[0], o.fields[0])
        return lib_std.dur(sym.ite(sym.lt(d, 0), 0, d))
    d = lib_std.dur_ns(o)
    return Adt('Instant', None, {0: sym.add(a.fields[0], d) if ci.name.endswith('add') else sym.sub(a.fields[0], d)})

# =======================================================================================================
# batch 3: more iterator adapters, collect targets, integers, Ordering, mem::swap, strings
# =======================================================================================================
class ChainIt(IterBase):
    def __init__(self, a, b):
        self.a, self.b = a, b
    def next(self, m):
        if self.a is not None:
            x = self.a.next(m)
            if x is not None:
                return x
            self.a = None
        return self.b.next(m)

class FlatIt(IterBase):
    """flat_map / flatten: inner values may be Vec / Option / iterators."""
    def __init__(self, it, f):
        self.it, self.f, self.cur = it, f, None
    def _inner(self, m, v):
        if isinstance(v, IterBase):
            return v
        if isinstance(v, Adt) and v.variant in ('Some', 'None'):
            return OwnedIter([v.fields[0]] if v.variant == 'Some' else [])
        if isinstance(v, Adt) and v.variant in ('Ok', 'Err'):
            return OwnedIter([v.fields[0]] if v.variant == 'Ok' else [])
        if isinstance(v, Seq):
            return OwnedIter(v.items)
        if isinstance(v, (Ref, Slice)):
            s, a, b = seq_of(v)
            return SliceIter(s, a, b, by_ref=True)
        raise Unsupported('flatten over %r' % (v,))
    def next(self, m):
        while True:
            if self.cur is not None:
                x = self.cur.next(m)
                if x is not None:
                    return x
                self.cur = None
            o = self.it.next(m)
            if o is None:
                return None
            self.cur = self._inner(m, _call(m, self.f, [o]) if self.f is not None else o)

class WhileIt(IterBase):
    def __init__(self, it, f, take):
        self.it, self.f, self.take, self.done = it, f, take, False
    def next(self, m):
        if self.take:
            if self.done:
                return None
            x = self.it.next(m)
            if x is None:
                return None
            if _truth(m, _call(m, self.f, [Ref(Cell(x), 'v')]), 'take_while'):
                return x
            self.done = True
            return None
        while not self.done:
            x = self.it.next(m)
            if x is None:
                return None
            if not _truth(m, _call(m, self.f, [Ref(Cell(x), 'v')]), 'skip_while'):
                self.done = True
                return x
        return self.it.next(m)

class StepIt(IterBase):
    def __init__(self, it, n):
        self.it, self.n, self.first = it, n, True
    def next(self, m):
        if self.first:
            self.first = False
            return self.it.next(m)
        x = None
        for _ in range(self.n):
            x = self.it.next(m)
            if x is None:
                return None
        return x

class PeekIt(IterBase):
    def __init__(self, it):
        self.it, self.buf, self.has = it, None, False
    def peek(self, m):
        if not self.has:
            self.buf, self.has = self.it.next(m), True
        return self.buf
    def next(self, m):
        if self.has:
            self.has = False
            return self.buf
        return self.it.next(m)

class InspectIt(IterBase):
    def __init__(self, it, f):
        self.it, self.f = it, f
    def next(self, m):
        x = self.it.next(m)
        if x is not None:
            _call(m, self.f, [Ref(Cell(x), 'v')])
        return x

@I.rx(r'^<.* as (Iterator|DoubleEndedIterator)>::(chain|flat_map|flatten|take_while|skip_while|step_by|peekable|inspect|fuse|product|'
      r'unzip|partition|try_fold|try_for_each|rposition|min_by|max_by|eq|ne|reduce|map_while)$'
      r'|^(std|core)::iter::Iterator::(chain|flat_map|flatten|take_while|skip_while|step_by|peekable|inspect|fuse|product|unzip|partition|'
      r'try_fold|try_for_each|rposition|min_by|max_by|eq|ne|reduce|map_while)$', prio=1)
def _iter_more(m, args, ci):
    meth = ci.name.rsplit('::', 1)[1]
    it = as_iter(m, args[0])
    if meth == 'chain':
        other = args[1]
        if not isinstance(other, IterBase):
            other = lib_std._into_iter(m, [other], ci)
        return ChainIt(it, other)
    if meth == 'flat_map':
        return FlatIt(it, args[1])
    if meth == 'flatten':
        return FlatIt(it, None)
    if meth in ('take_while', 'skip_while'):
        return WhileIt(it, args[1], meth == 'take_while')
    if meth == 'map_while':
        f = args[1]
        class _MW(IterBase):
            def __init__(s2):
                s2.done = False
            def next(s2, m):
                if s2.done:
                    return None
                x = it.next(m)
                if x is None:
                    return None
                r = _call(m, f, [x])
                if is_variant(r, 'Some'):
                    return r.fields[0]
                s2.done = True
                return None
        return _MW()
    if meth == 'step_by':
        n = args[1]
        if isinstance(n, T):
            n = m.concretize(n, 1, 64, 'step_by')
        if n == 0:
            raise Panic('assertion failed: step != 0')
        return StepIt(it, n)
    if meth == 'peekable':
        return PeekIt(it)
    if meth == 'inspect':
        return InspectIt(it, args[1])
    if meth == 'fuse':
        return it
    if meth == 'product':
        acc = 1
        while True:
            x = it.next(m)
            if x is None:
                return acc
            acc = m.mul(acc, deref_val(x)) if hasattr(m, 'mul') else sym.mul(acc, deref_val(x))
    if meth == 'reduce':
        acc = it.next(m)
        if acc is None:
            return none()
        while True:
            x = it.next(m)
            if x is None:
                return some(acc)
            acc = _call(m, args[1], [acc, x])
    if meth in ('unzip', 'partition'):
        a, b = [], []
        while True:
            x = it.next(m)
            if x is None:
                break
            if meth == 'unzip':
                a.append(x.fields[0]); b.append(x.fields[1])
            elif _truth(m, _call(m, args[1], [Ref(Cell(x), 'v')]), 'partition'):
                a.append(x)
            else:
                b.append(x)
        return tuple_(Seq(a, 'vec'), Seq(b, 'vec'))
    if meth in ('try_fold', 'try_for_each'):
        acc = args[1] if meth == 'try_fold' else unit()
        f = args[2] if meth == 'try_fold' else args[1]
        while True:
            x = it.next(m)
            if x is None:
                break
            r = _call(m, f, [acc, x] if meth == 'try_fold' else [x])
            if isinstance(r, Adt) and r.variant in ('Err', 'None', 'Break'):
                return r
            acc = r.fields[0] if isinstance(r, Adt) and r.variant in ('Ok', 'Some', 'Continue') else r
        dty = ci.dest_type(m) or ''
        return some(acc) if type_head(dty).endswith('Option') else ok(acc)
    if meth == 'rposition':
        items = []
        while True:
            x = it.next(m)
            if x is None:
                break
            items.append(x)
        for i in range(len(items) - 1, -1, -1):
            if _truth(m, _call(m, args[1], [items[i]]), 'rposition'):
                return some(i)
        return none()
    if meth in ('min_by', 'max_by'):
        best = it.next(m)
        if best is None:
            return none()
        while True:
            x = it.next(m)
            if x is None:
                return some(best)
            o = _call(m, args[1], [Ref(Cell(best), 'v'), Ref(Cell(x), 'v')])
            if meth == 'max_by' and o.variant != 'Greater':
                best = x
            elif meth == 'min_by' and o.variant == 'Greater':
                best = x
    if meth in ('eq', 'ne'):
        other = args[1] if isinstance(args[1], IterBase) else lib_std._into_iter(m, [args[1]], ci)
        acc = True
        while True:
            a, b = it.next(m), other.next(m)
            if a is None or b is None:
                same_len = a is None and b is None
                r = acc if same_len else False
                return r if meth == 'eq' else sym.not_(r)
            e = value_eq(m, deref_val(a) if isinstance(a, Ref) else a, deref_val(b) if isinstance(b, Ref) else b)
            acc = e if acc is True else sym.and_(acc, e)
    raise Unsupported('Iterator::' + meth)

@I.rx(r'(^|::)Peekable::(peek|peek_mut|next_if|next_if_eq)$')
def _peekable_ops(m, args, ci):
    p = as_iter(m, args[0])
    meth = ci.name.rsplit('::', 1)[1]
    x = p.peek(m)
    if meth in ('peek', 'peek_mut'):
        return none() if x is None else some(Ref(Cell(x), 'v'))
    if x is None:
        return none()
    if meth == 'next_if':
        keep = _truth(m, _call(m, args[1], [Ref(Cell(x), 'v')]), 'next_if')
    else:
        keep = _truth(m, value_eq(m, x, deref_val(args[1])), 'next_if_eq')
    if keep:
        p.has = False
        return some(x)
    return none()

@I.rx(r'^<(std::option::)?Option as IntoIterator>::into_iter$|(^|::)Option::(iter|iter_mut)$', prio=2)
def _opt_iter(m, args, ci):
    o = _opt(args[0])
    if o.variant == 'None':
        return OwnedIter([])
    return OwnedIter([o.fields[0] if ci.name.endswith('into_iter') else Ref(o, 0)])

# ---- integers ------------------------------------------------------------------------------------------
_INT = r'(u8|u16|u32|u64|u128|usize|i8|i16|i32|i64|i128|isize)'

@I.rx(r'(^|::)num::<impl %s>::(clamp|div_euclid|rem_euclid|signum|unsigned_abs|to_le_bytes|from_le_bytes|to_ne_bytes|is_positive|is_negative)$'
      r'|^<%s as Ord>::clamp$|^(std|core)::cmp::Ord::clamp$' % (_INT, _INT))
def _int_more(m, args, ci):
    meth = ci.name.rsplit('::', 1)[1]
    mm = re.search(_INT, ci.name)
    ty = sym.INT_TYPES.get(mm.group(1)) if mm else None
    x = args[0]
    if meth == 'clamp':
        lo, hi = args[1], args[2]
        if _truth(m, sym.gt(lo, hi), 'clamp.assert'):
            raise Panic('assertion failed: min <= max')
        return sym.ite(sym.lt(x, lo), lo, sym.ite(sym.gt(x, hi), hi, x))
    if meth in ('div_euclid', 'rem_euclid'):
        y = args[1]
        if _truth(m, sym.eq(y, 0), meth + '.zero'):
            raise Panic('attempt to divide by zero')
        if ty is not None and ty.lo == 0:
            return m.divrem('Div' if meth == 'div_euclid' else 'Rem', x, y, ty)
        raise Unsupported(meth + ' on a signed type')
    if meth == 'signum':
        return sym.ite(sym.gt(x, 0), 1, sym.ite(sym.lt(x, 0), -1, 0))
    if meth == 'unsigned_abs':
        return sym.ite(sym.lt(x, 0), sym.sub(0, x), x)
    if meth == 'is_positive':
        return sym.gt(x, 0)
    if meth == 'is_negative':
        return sym.lt(x, 0)
    if meth in ('to_le_bytes', 'to_ne_bytes'):
        n = ty.bits // 8
        v = x if ty.lo == 0 else sym.ite(sym.lt(x, 0), sym.add(x, 1 << ty.bits), x)
        out = []
        for i in range(n):
            out.append(sym.mod(sym.div(v, 1 << (8 * i)), 256) if isinstance(v, T) else (v >> (8 * i)) & 0xff)
        return Seq(out, 'array')
    if meth == 'from_le_bytes':
        s, a, b = seq_of(args[0])
        acc = 0
        for i, byte in enumerate(s.items[a:b]):
            acc = sym.add(acc, sym.mul(byte, 1 << (8 * i)))
        if ty.lo < 0:
            acc = sym.ite(sym.ge(acc, 1 << (ty.bits - 1)), sym.sub(acc, 1 << ty.bits), acc)
        return acc
    raise Unsupported(ci.name)

# ---- Ordering ------------------------------------------------------------------------------------------
@I.rx(r'(^|::)Ordering::(is_lt|is_le|is_gt|is_ge|is_eq|is_ne|reverse|then|then_with)$')
def _ordering_ops(m, args, ci):
    o = deref_val(args[0]) if isinstance(args[0], Ref) else args[0]
    v = o.variant
    meth = ci.name.rsplit('::', 1)[1]
    if meth.startswith('is_'):
        return {'is_lt': v == 'Less', 'is_le': v != 'Greater', 'is_gt': v == 'Greater', 'is_ge': v != 'Less',
                'is_eq': v == 'Equal', 'is_ne': v != 'Equal'}[meth]
    if meth == 'reverse':
        return Adt(o.ty, {'Less': 'Greater', 'Greater': 'Less', 'Equal': 'Equal'}[v], {})
    if v != 'Equal':
        return o
    return args[1] if meth == 'then' else _call(m, args[1], [])

# ---- mem::swap -------------------------------------------------------------------------------------------
@I.add('std::mem::swap', 'core::mem::swap')
def _mem_swap(m, args, ci):
    a, b = args[0], args[1]
    va, vb = a.get(), b.get()
    a.set(vb)
    b.set(va)
    return unit()

# ---- Vec extras ------------------------------------------------------------------------------------------
@I.rx(r'^(std::vec::)?Vec::resize$')
def _vec_resize(m, args, ci):
    s = vec_target(args[0])
    n = args[1]
    if isinstance(n, T):
        n = m.concretize(n, 0, 4096, 'resize')
    while len(s.items) > n:
        m.drop_value(s.items.pop())
    while len(s.items) < n:
        s.items.append(clone_value(m, args[2]))
    return unit()

@I.rx(r'^(core::slice::|std::slice::|alloc::slice::)?<impl \[.*\]>::(sort|sort_unstable|sort_by_key|sort_unstable_by_key|sort_by|sort_unstable_by|reverse|swap|is_sorted)$')
def _slice_sort(m, args, ci):
    s, a, b = seq_of(args[0])
    meth = ci.name.rsplit('::', 1)[1]
    if meth == 'reverse':
        s.items[a:b] = s.items[a:b][::-1]
        return unit()
    if meth == 'swap':
        i, j = args[1], args[2]
        if isinstance(i, T):
            i = m.concretize(i, 0, b - a, 'swap')
        if isinstance(j, T):
            j = m.concretize(j, 0, b - a, 'swap')
        if i >= b - a or j >= b - a:
            raise Panic('index out of bounds')
        s.items[a + i], s.items[a + j] = s.items[a + j], s.items[a + i]
        return unit()
    def less(x, y):
        if meth in ('sort', 'sort_unstable', 'is_sorted'):
            return _truth(m, sym.lt(deref_val(x) if isinstance(x, Ref) else x, deref_val(y) if isinstance(y, Ref) else y), 'sort<')
        if meth.endswith('by_key'):
            return _truth(m, sym.lt(_call(m, args[1], [Ref(Cell(x), 'v')]), _call(m, args[1], [Ref(Cell(y), 'v')])), 'sort<')
        return _call(m, args[1], [Ref(Cell(x), 'v'), Ref(Cell(y), 'v')]).variant == 'Less'
    xs = s.items[a:b]
    if meth == 'is_sorted':
        return all(not less(xs[i + 1], xs[i]) for i in range(len(xs) - 1))
    # stable insertion sort (the result of a stable sort is unique; the unstable variants are only specified up to the
    # order of equal elements, which this makes deterministic)
    out = []
    for x in xs:
        k = len(out)
        while k > 0 and less(x, out[k - 1]):
            k -= 1
        out.insert(k, x)
    s.items[a:b] = out
    return unit()

@I.rx(r'^(std::vec::)?Vec::(dedup|dedup_by_key)$')
def _vec_dedup(m, args, ci):
    s = vec_target(args[0])
    out = []
    for x in s.items:
        if out:
            if ci.name.endswith('dedup'):
                same = _truth(m, value_eq(m, out[-1], x), 'dedup')
            else:
                same = _truth(m, sym.eq(_call(m, args[1], [Ref(Cell(out[-1]), 'v')]), _call(m, args[1], [Ref(Cell(x), 'v')])), 'dedup')
            if same:
                continue
        out.append(x)
    s.items[:] = out
    return unit()

# ---- concrete strings --------------------------------------------------------------------------------------
@I.rx(r'^(core::str::|std::str::)?<impl str>::(starts_with|ends_with|contains|trim|trim_start|trim_end|to_owned|to_string|eq_ignore_ascii_case)$', prio=1)
def _str_more(m, args, ci):
    s, a, b = seq_of(args[0])
    meth = ci.name.rsplit('::', 1)[1]
    if s.tag is not None and not s.items:
        if meth in ('to_owned', 'to_string'):
            return Seq([], 'str', s.tag)
        raise Unsupported('%s on a string known only by identity' % meth)
    xs = s.items[a:b]
    if any(isinstance(x, T) for x in xs):
        raise Unsupported('%s on a string with symbolic bytes' % meth)
    if meth in ('to_owned', 'to_string'):
        return Seq(list(xs), 'str')
    if meth.startswith('trim'):
        lo, hi = 0, len(xs)
        ws = (9, 10, 11, 12, 13, 32)
        if meth in ('trim', 'trim_start'):
            while lo < hi and xs[lo] in ws:
                lo += 1
        if meth in ('trim', 'trim_end'):
            while hi > lo and xs[hi - 1] in ws:
                hi -= 1
        return Slice(s, a + lo, a + hi)
    t, c, d = seq_of(args[1])
    ys = t.items[c:d]
    if any(isinstance(y, T) for y in ys) or (t.tag is not None and not t.items):
        raise Unsupported('%s with a symbolic pattern' % meth)
    bx, by = bytes(xs), bytes(ys)
    if meth == 'starts_with':
        return bx.startswith(by)
    if meth == 'ends_with':
        return bx.endswith(by)
    if meth == 'contains':
        return by in bx
    return bx.lower() == by.lower()

# =======================================================================================================
# batch 4 (benign sweep 3)
# =======================================================================================================
@I.add(*_o('unzip'))
def _opt_unzip(m, args, ci):
    o = _opt(args[0])
    if o.variant == 'None':
        return tuple_(none(), none())
    t = o.fields[0]
    return tuple_(some(t.fields[0]), some(t.fields[1]))

def _default_of(m, tyname):
    t = type_head(tyname or '')
    last = last_seg(t)
    if last in sym.INT_TYPES:
        return 0
    if last == 'bool':
        return False
    if last == 'Duration':
        return lib_std.dur(0)
    if last == 'String':
        return Seq([], 'str')
    if last == 'Vec':
        return Seq([], 'vec')
    if last == 'Option':
        return none()
    if last in ('()',):
        return unit()
    return None

@I.add(*(_o('unwrap_or_default') + _r('unwrap_or_default')))
def _unwrap_or_default_any(m, args, ci):
    v = deref_val(args[0]) if isinstance(args[0], Ref) else args[0]
    if v.variant in ('Some', 'Ok'):
        return v.fields[0]
    g = ci.generic_args()
    first = None
    if g:
        # Result<T, E>: the generic list may arrive as one string "T, E" -- T is what precedes the first top-level comma
        txt, depth = g[0], 0
        for i, ch in enumerate(txt):
            if ch in '<([':
                depth += 1
            elif ch in '>)]':
                depth -= 1
            elif ch == ',' and depth == 0:
                txt = txt[:i]
                break
        first = txt.strip()
    d = _default_of(m, first) if first else None
    if d is None:
        raise Unsupported('unwrap_or_default of ' + str(g))
    return d

@I.rx(r'^<%s as (Ord|PartialOrd)>::(cmp|partial_cmp)$|^(std|core)::cmp::(Ord::cmp|PartialOrd::partial_cmp)$' % _INT, prio=1)
def _int_cmp(m, args, ci):
    a = deref_val(args[0]) if isinstance(args[0], Ref) else args[0]
    b = deref_val(args[1]) if isinstance(args[1], Ref) else args[1]
    if _truth(m, sym.lt(a, b), 'cmp<'):
        o = 'Less'
    else:
        o = 'Equal' if _truth(m, sym.eq(a, b), 'cmp=') else 'Greater'
    r = Adt('std::cmp::Ordering', o, {})
    return some(r) if ci.name.endswith('partial_cmp') else r

@I.rx(r'^(std|core)::iter::(once|empty|once_with)$|^(std|core)::iter::sources::(once|empty)::(once|empty)$')
def _iter_once(m, args, ci):
    if ci.name.endswith('empty'):
        return OwnedIter([])
    if ci.name.endswith('once_with'):
        return OwnedIter([_call(m, args[0], [])])
    return OwnedIter([args[0]])

@I.rx(r'(^|::)HashMap::remove_entry$')
def _hm_remove_entry(m, args, ci):
    hm = deref_val(args[0])
    i = hm.find(m, args[1])
    if i is None:
        return none()
    k, cell = hm.entries.pop(i)
    return some(tuple_(k, cell.v))

@I.rx(r'^<(std::string::)?String as ToOwned>::to_owned$|^<str as ToOwned>::to_owned$|^<\[.*\] as ToOwned>::to_owned$')
def _to_owned(m, args, ci):
    s, a, b = seq_of(args[0])
    kind = 'vec' if ci.name.startswith('<[') else 'str'
    if s.tag is not None and not s.items:
        return Seq([], kind, s.tag)
    return Seq([clone_value(m, x) for x in s.items[a:b]], kind, s.tag)


# ---- maps: iteration ------------------------------------------------------------------------------------
def _key_sort(m, entries):
    """Key order of a BTreeMap: decided by the solver pairwise (insertion sort); Option keys: None < Some(_)."""
    def kv(k):
        k = deref_val(k) if isinstance(k, Ref) else k
        if isinstance(k, Adt) and k.variant in ('Some', 'None'):
            return (0, 0) if k.variant == 'None' else (1, k.fields[0])
        return (1, k)
    out = []
    for ent in entries:
        a = kv(ent[0])
        i = len(out)
        while i > 0:
            b = kv(out[i - 1][0])
            if a[0] != b[0]:
                less = a[0] < b[0]
            else:
                less = _truth(m, sym.lt(a[1], b[1]), 'btreemap.key<')
            if not less:
                break
            i -= 1
        out.insert(i, ent)
    return out

@I.rx(r'^<(std::collections::)?(HashMap|BTreeMap) as IntoIterator>::into_iter$|(^|::)(HashMap|BTreeMap)::(into_iter|iter|iter_mut|values|values_mut|into_values|keys|into_keys)$', prio=2)
def _map_iter(m, args, ci):
    hm = deref_val(args[0]) if isinstance(args[0], Ref) else args[0]
    ents = list(hm.entries)
    if 'BTreeMap' in (ci.raw or ci.name):
        ents = _key_sort(m, ents)
    meth = ci.name.rsplit('::', 1)[1]
    owned = not isinstance(args[0], Ref)
    out = []
    for k, cell in ents:
        if meth in ('values', 'values_mut'):
            out.append(Ref(cell, 'v'))
        elif meth == 'into_values':
            out.append(cell.v)
        elif meth == 'keys':
            out.append(Ref(Cell(k), 'v'))
        elif meth == 'into_keys':
            out.append(k)
        elif owned:
            out.append(tuple_(k, cell.v))
        else:
            out.append(tuple_(Ref(Cell(k), 'v'), Ref(cell, 'v')))
    return OwnedIter(out)
