"""tokio 1.38 / futures 0.3 / tracing 0.1 contracts (runtime-agnostic semantics only).

Primitives are Python objects living in the machine state.  Wake-ups: a future that returns
Pending registers the current task in the primitive's waiter set; a state change of the
primitive makes the waiters runnable again (m.sched.wake).
"""
import re
from . import sym
from .sym import T
from .values import Adt, Ref, Seq, Slice, Cell, FnItem, Opaque, MOVED, UNINIT, unit
from .machine import Unsupported, Panic, Infeasible, make_box, box_ref, last_seg, type_head
from .intrinsics import (I, some, none, ok, err, ready, pending, tuple_, deref_val, clone_value, is_variant, qualified)

# ----------------------------------------------------------------------------
# scheduler state
# ----------------------------------------------------------------------------
class Task:
    def __init__(self, tid, name, root):
        self.tid = tid
        self.name = name
        self.root = root            # Cell holding the future (coroutine Adt / boxed future)
        self.status = 'runnable'    # runnable | blocked | done | panicked
        self.result = None
        self.polls = 0
        self.join_waiters = set()
        self.detached = False
        self.panic = None

class Sched:
    def __init__(self):
        self.tasks = []
        self.cur = None
        self.self_wake = False
        self.spurious = False        # offer a spurious Pending at every primitive await (scheduling points)
        self.rng_free = True         # select! start index is a free choice
    def new_task(self, name, fut):
        t = Task(len(self.tasks), name, Cell(fut))
        self.tasks.append(t)
        return t
    def wake(self, waiters):
        for tid in list(waiters):
            t = self.tasks[tid]
            if t.status == 'blocked':
                t.status = 'runnable'
            elif tid == self.cur:
                self.self_wake = True
        waiters.clear()
    def register(self, waiters):
        if self.cur is not None:
            waiters.add(self.cur)

def sched(m):
    s = m.st.sched
    if s is None:
        raise Unsupported('async primitive used without a scheduler')
    return s

def maybe_spurious(m, waiters, label):
    """Optional scheduling point before an asynchronous visible operation: the future may return
    Pending once with an immediate self-wake (legal for any future)."""
    s = sched(m)
    if not s.spurious:
        return False
    key = (s.cur, label)
    if key in m.st.spurious_done:
        m.st.spurious_done.discard(key)
        return False
    if m.choose(2, 'yield@' + label) == 1:
        m.st.spurious_done.add(key)
        s.self_wake = True
        return True
    return False

# ----------------------------------------------------------------------------
# generic Future::poll / IntoFuture
# ----------------------------------------------------------------------------
def poll_value(m, fut_ref, cx):
    """Poll whatever future lives behind fut_ref (a Ref to the future value)."""
    v = fut_ref.get() if isinstance(fut_ref, Ref) else fut_ref
    while True:
        if isinstance(v, Adt) and v.ty in ('Pin', 'Box', 'Unique', 'NonNull'):
            inner = v.fields[0]
            if isinstance(inner, Ref):
                fut_ref = inner
                v = inner.get()
            else:
                v = inner
            continue
        break
    if isinstance(v, Adt) and v.ty.startswith('{'):
        body = m.prog.closure_body(v)
        if body is None:
            raise Unsupported('no body for coroutine %s' % v.ty)
        return m.call_body(body, [Adt('Pin', None, {0: fut_ref}), cx])
    p = getattr(v, 'poll', None)
    if p is not None:
        return p(m, fut_ref, cx)
    raise Unsupported('poll of %r' % (v,))

@I.rx(r'^<.* as (std::future::|futures::|core::future::)?Future>::poll$')
def _future_poll(m, args, ci):
    pin = args[0]
    inner = pin.fields[0] if isinstance(pin, Adt) and pin.ty == 'Pin' else pin
    if isinstance(inner, Adt) and inner.ty == 'Box':
        inner = box_ref(inner)
    return poll_value(m, inner, args[1])

@I.rx(r'^<.* as (std::future::|core::future::)?IntoFuture>::into_future$')
def _into_future(m, args, ci):
    return args[0]

@I.rx(r'^(std|core)::task::Context::(waker|from_waker)$|^<(std::task::)?Waker as Clone>::clone$|^(std::task::)?Waker::(wake|wake_by_ref)$')
def _waker(m, args, ci):
    if ci.name.endswith('wake') or ci.name.endswith('wake_by_ref'):
        sched(m).self_wake = True
        return unit()
    return Opaque('waker', sched(m).cur)

@I.rx(r'^(std|core)::future::ready$')
def _future_ready(m, args, ci):
    return ReadyFut(args[0])

class ReadyFut:
    def __init__(self, v):
        self.v = v
    def poll(self, m, ref, cx):
        v = self.v
        self.v = MOVED
        return ready(v)

# ----------------------------------------------------------------------------
# tokio::sync::Mutex
# ----------------------------------------------------------------------------
class TMutex:
    def __init__(self, v, label=''):
        self.cell = Cell(v)
        self.locked_by = None     # task id
        self.waiters = set()
        self.label = label

class LockFut:
    def __init__(self, mx):
        self.mx = mx
    def poll(self, m, ref, cx):
        mx = self.mx
        s = sched(m)
        if mx.locked_by is None:
            if maybe_spurious(m, mx.waiters, 'lock'):
                return pending()
            mx.locked_by = s.cur
            m.event('lock', s.cur, mx.label)
            return ready(Guard(mx))
        if mx.locked_by == s.cur:
            m.event('deadlock', s.cur, mx.label)
            raise Panic('task %s locks %s twice (deadlock)' % (s.cur, mx.label))
        # blocked behind another holder: visible to the lock-discipline oracle (with the locks the waiter itself holds)
        m.event('lock_wait', s.cur, mx.label, tuple(mutex_held_by(m, s.cur)), mx.locked_by)
        s.register(mx.waiters)
        return pending()

class Guard:
    def __init__(self, mx):
        self.mx = mx
        self.live = True
    def on_drop(self, m):
        if self.live:
            self.live = False
            self.mx.locked_by = None
            m.event('unlock', sched(m).cur, self.mx.label)
            sched(m).wake(self.mx.waiters)

@I.rx(r'^(tokio::sync::)?Mutex::new$')
def _mutex_new(m, args, ci):
    return TMutex(args[0])

@I.rx(r'^(tokio::sync::)?Mutex::lock$')
def _mutex_lock(m, args, ci):
    mx = deref_val(args[0])
    if not isinstance(mx, TMutex):
        raise Unsupported('Mutex::lock on %r' % (mx,))
    return LockFut(mx)

@I.rx(r'^<(tokio::sync::)?MutexGuard as (Deref|DerefMut)>::(deref|deref_mut)$')
def _guard_deref(m, args, ci):
    g = deref_val(args[0])
    return Ref(g.mx.cell, 'v')

def mutex_held_by(m, tid):
    """Labels of mutexes currently held by task tid (for the lock-discipline assertion)."""
    out = []
    for mx in m.st.mutexes:
        if mx.locked_by == tid:
            out.append(mx.label)
    return out

# ----------------------------------------------------------------------------
# tokio::sync::mpsc (bounded)
# ----------------------------------------------------------------------------
class Chan:
    def __init__(self, cap, label=''):
        self.cap = cap
        self.q = []
        self.senders = 1
        self.rx_alive = True
        self.rx_waiters = set()
        self.tx_waiters = set()
        self.label = label
        self.reserved = 0        # capacity handed out as permits (reserve / reserve_owned) and not yet used

class MpscSender:
    def __init__(self, ch):
        self.ch = ch
        self.live = True
    def clone_hook(self, m):
        self.ch.senders += 1
        return MpscSender(self.ch)
    def on_drop(self, m):
        if self.live:
            self.live = False
            self.ch.senders -= 1
            if self.ch.senders == 0:
                sched(m).wake(self.ch.rx_waiters)

class MpscReceiver:
    def __init__(self, ch):
        self.ch = ch
        self.live = True
    def on_drop(self, m):
        if self.live:
            self.live = False
            self.ch.rx_alive = False
            for x in self.ch.q:
                m.drop_value(x)
            self.ch.q = []
            sched(m).wake(self.ch.tx_waiters)

class SendFut:
    def __init__(self, ch, v):
        self.ch = ch
        self.v = v
    def poll(self, m, ref, cx):
        ch = self.ch
        s = sched(m)
        if not ch.rx_alive:
            v = self.v
            self.v = MOVED
            return ready(err(Adt('tokio::sync::mpsc::error::SendError', None, {0: v})))
        if len(ch.q) + ch.reserved < ch.cap:
            ch.q.append(self.v)
            self.v = MOVED
            m.event('mpsc_send', s.cur, ch.label)
            s.wake(ch.rx_waiters)
            return ready(ok(unit()))
        m.event('mpsc_send_blocked', s.cur, ch.label, tuple(mutex_held_by(m, s.cur)))
        s.register(ch.tx_waiters)
        return pending()

class RecvFut:
    def __init__(self, rx_ref):
        self.rx_ref = rx_ref
    def poll(self, m, ref, cx):
        rx = deref_val(self.rx_ref)
        return poll_recv(m, rx.ch)

def poll_recv(m, ch, label='recv'):
    s = sched(m)
    if ch.q:
        if maybe_spurious(m, ch.rx_waiters, label + ':' + ch.label):
            return pending()
        v = ch.q.pop(0)
        s.wake(ch.tx_waiters)
        m.event('mpsc_recv', s.cur, ch.label)
        return ready(some(v))
    if ch.senders == 0:
        return ready(none())
    s.register(ch.rx_waiters)
    return pending()

@I.rx(r'^(tokio::sync::)?mpsc::(bounded::|unbounded::)?(Unbounded)?Receiver::try_recv$')
def _mpsc_try_recv(m, args, ci):
    """try_recv: Ok(v) if a value is queued, Err(Empty) / Err(Disconnected) otherwise; never suspends."""
    ch = deref_val(args[0]).ch
    s = sched(m)
    if ch.q:
        v = ch.q.pop(0)
        s.wake(ch.tx_waiters)
        m.event('mpsc_recv', s.cur, ch.label)
        return ok(v)
    return err(Adt('TryRecvError', 'Disconnected' if ch.senders == 0 else 'Empty', {}))

@I.rx(r'^(tokio::sync::)?mpsc::channel$|^tokio::sync::mpsc::bounded::channel$')
def _mpsc_channel(m, args, ci):
    cap = args[0]
    if isinstance(cap, T):
        raise Unsupported('symbolic channel capacity')
    if cap == 0:
        raise Panic('mpsc bounded channel requires buffer > 0')
    ch = Chan(cap, 'ch%d' % len(m.st.channels))
    m.st.channels.append(ch)
    return tuple_(MpscSender(ch), MpscReceiver(ch))

@I.rx(r'^(tokio::sync::)?mpsc::(bounded::)?Sender::send$')
def _mpsc_send(m, args, ci):
    tx = deref_val(args[0])
    return SendFut(tx.ch, args[1])

@I.rx(r'^(tokio::sync::)?mpsc::(bounded::)?Sender::try_send$')
def _mpsc_try_send(m, args, ci):
    tx = deref_val(args[0])
    ch = tx.ch
    if not ch.rx_alive:
        return err(Adt('tokio::sync::mpsc::error::TrySendError', 'Closed', {0: args[1]}))
    if len(ch.q) + ch.reserved < ch.cap:
        ch.q.append(args[1])
        sched(m).wake(ch.rx_waiters)
        return ok(unit())
    return err(Adt('tokio::sync::mpsc::error::TrySendError', 'Full', {0: args[1]}))

class Permit:
    """A reserved slot of a bounded channel (Permit / OwnedPermit): using it cannot block; dropping it frees the slot."""
    def __init__(self, ch, owned):
        self.ch = ch
        self.owned = owned
        self.live = True
    def on_drop(self, m):
        if self.live:
            self.live = False
            self.ch.reserved -= 1
            sched(m).wake(self.ch.tx_waiters)

class ReserveFut:
    def __init__(self, ch, owned):
        self.ch = ch
        self.owned = owned
    def poll(self, m, ref, cx):
        ch = self.ch
        s = sched(m)
        if not ch.rx_alive:
            return ready(err(Adt('tokio::sync::mpsc::error::SendError', None, {0: unit()})))
        if len(ch.q) + ch.reserved < ch.cap:
            ch.reserved += 1
            m.event('mpsc_reserve', s.cur, ch.label)
            return ready(ok(Permit(ch, self.owned)))
        m.event('mpsc_send_blocked', s.cur, ch.label, tuple(mutex_held_by(m, s.cur)))
        s.register(ch.tx_waiters)
        return pending()

@I.rx(r'^(tokio::sync::)?mpsc::(bounded::)?Sender::(reserve|reserve_owned)$')
def _mpsc_reserve(m, args, ci):
    tx = deref_val(args[0]) if isinstance(args[0], Ref) else args[0]
    owned = ci.name.endswith('reserve_owned')
    if owned and isinstance(tx, MpscSender) and tx.live:
        # the sender moves into the permit: it stays counted as a sender until the permit is gone
        pass
    return ReserveFut(tx.ch, owned)

@I.rx(r'(^|::)(Owned)?Permit::send$')
def _mpsc_permit_send(m, args, ci):
    p = deref_val(args[0]) if isinstance(args[0], Ref) else args[0]
    ch = p.ch
    if p.live:
        p.live = False
        ch.reserved -= 1
    ch.q.append(args[1])
    s = sched(m)
    m.event('mpsc_send', s.cur, ch.label)
    s.wake(ch.rx_waiters)
    if p.owned:
        ch.senders += 1
        return MpscSender(ch)
    return unit()

@I.rx(r'^(tokio::sync::)?mpsc::(bounded::)?Sender::(capacity|max_capacity)$')
def _mpsc_capacity(m, args, ci):
    ch = deref_val(args[0]).ch
    return ch.cap if ci.name.endswith('max_capacity') else max(0, ch.cap - len(ch.q) - ch.reserved)

@I.rx(r'^(tokio::sync::)?mpsc::(bounded::)?Receiver::recv$')
def _mpsc_recv(m, args, ci):
    return RecvFut(args[0])

@I.rx(r'^(tokio::sync::)?mpsc::(bounded::)?Receiver::poll_recv$')
def _mpsc_poll_recv(m, args, ci):
    rx = deref_val(args[0])
    return poll_recv(m, rx.ch)

@I.rx(r'^(tokio::sync::)?mpsc::(bounded::)?Receiver::close$')
def _mpsc_close(m, args, ci):
    rx = deref_val(args[0])
    rx.ch.rx_alive = False
    sched(m).wake(rx.ch.tx_waiters)
    return unit()

# ----------------------------------------------------------------------------
# tokio::sync::oneshot
# ----------------------------------------------------------------------------
class OneShot:
    def __init__(self, label=''):
        self.value = None
        self.sent = False
        self.tx_alive = True
        self.rx_alive = True
        self.rx_waiters = set()
        self.label = label
        self.sends = 0

class OneTx:
    def __init__(self, ch):
        self.ch = ch
        self.live = True
    def on_drop(self, m):
        if self.live:
            self.live = False
            self.ch.tx_alive = False
            if not self.ch.sent:
                m.event('oneshot_dropped_unsent', self.ch.label)
            sched(m).wake(self.ch.rx_waiters)

class OneRx:
    def __init__(self, ch):
        self.ch = ch
        self.live = True
    def on_drop(self, m):
        if self.live:
            self.live = False
            self.ch.rx_alive = False
    def poll(self, m, ref, cx):
        ch = self.ch
        s = sched(m)
        if ch.sent:
            if maybe_spurious(m, ch.rx_waiters, 'oneshot:' + ch.label):
                return pending()
            v = ch.value
            ch.value = MOVED
            ch.sent = 'taken'
            return ready(ok(v))
        if not ch.tx_alive:
            return ready(err(Opaque('RecvError')))
        s.register(ch.rx_waiters)
        return pending()

@I.rx(r'^(tokio::sync::)?oneshot::channel$')
def _oneshot_channel(m, args, ci):
    ch = OneShot('os%d' % len(m.st.oneshots))
    m.st.oneshots.append(ch)
    m.event('oneshot_new', ch.label, sched(m).cur)
    return tuple_(OneTx(ch), OneRx(ch))

@I.rx(r'^(tokio::sync::)?oneshot::Sender::send$')
def _oneshot_send(m, args, ci):
    tx = args[0]
    ch = tx.ch
    tx.live = False
    ch.sends += 1
    if not ch.rx_alive:
        ch.tx_alive = False
        return err(args[1])
    ch.value = args[1]
    ch.sent = True
    ch.tx_alive = False
    m.event('oneshot_send', ch.label, sched(m).cur)
    sched(m).wake(ch.rx_waiters)
    return ok(unit())

# ----------------------------------------------------------------------------
# spawn / JoinHandle
# ----------------------------------------------------------------------------
class JoinHandle:
    def __init__(self, tid):
        self.tid = tid
    def on_drop(self, m):
        sched(m).tasks[self.tid].detached = True
    def poll(self, m, ref, cx):
        s = sched(m)
        t = s.tasks[self.tid]
        if t.status == 'done':
            return ready(ok(t.result))
        if t.status == 'panicked':
            return ready(err(Opaque('JoinError', 'panic')))
        s.register(t.join_waiters)
        return pending()

@I.rx(r'^tokio::spawn$|^tokio::task::spawn$|^tokio::task::spawn::spawn$')
def _spawn(m, args, ci):
    s = sched(m)
    name = 'spawned'
    f = args[0]
    if isinstance(f, Adt):
        name = f.ty[:60]
    t = s.new_task(name, f)
    m.event('spawn', s.cur, t.tid, tuple(mutex_held_by(m, s.cur)))
    return JoinHandle(t.tid)

# ----------------------------------------------------------------------------
# time
# ----------------------------------------------------------------------------
class Timer:
    def __init__(self, dur_ns, label):
        self.dur = dur_ns
        self.fired = False
        self.polled = False
        self.waiters = set()
        self.label = label
        self.created_by = None
        self.dropped = False
    def on_drop(self, m):
        self.dropped = True
    def poll(self, m, ref, cx):
        s = sched(m)
        if not self.polled:
            self.polled = True
            m.event('timer_armed', self.label, s.cur)
        if self.fired:
            return ready(unit())
        # a zero-duration sleep completes on its first poll
        if not isinstance(self.dur, T) and self.dur == 0:
            self.fired = True
            return ready(unit())
        s.register(self.waiters)
        return pending()

@I.rx(r'^tokio::time::sleep$|^tokio::time::sleep::sleep$')
def _sleep(m, args, ci):
    from .lib_std import dur_ns
    t = Timer(dur_ns(args[0]), 'timer%d' % len(m.st.timers))
    t.created_by = sched(m).cur
    m.st.timers.append(t)
    m.event('timer_created', t.label, sched(m).cur, t.dur, tuple(mutex_held_by(m, sched(m).cur)))
    return t

@I.rx(r'^tokio::time::sleep_until$|^tokio::time::sleep::sleep_until$')
def _sleep_until(m, args, ci):
    """`sleep_until(deadline)`: a timer over max(0, deadline - now), with `now` one reading of the environment clock."""
    d = args[0]
    d = deref_val(d) if isinstance(d, Ref) else d
    if m.env is None or not hasattr(m.env, 'now_ns'):
        raise Unsupported('sleep_until without an environment clock')
    now = m.env.now_ns(m)
    left = sym.sub(d.fields[0], now)
    left = sym.ite(sym.lt(left, 0), 0, left)
    t = Timer(left, 'timer%d' % len(m.st.timers))
    t.created_by = sched(m).cur
    m.st.timers.append(t)
    m.event('timer_created', t.label, sched(m).cur, t.dur, tuple(mutex_held_by(m, sched(m).cur)))
    return t

# ----------------------------------------------------------------------------
# select! / join! support (their expansion is crate MIR and is executed)
# ----------------------------------------------------------------------------
@I.rx(r'^tokio::macros::support::thread_rng_n$')
def _thread_rng_n(m, args, ci):
    n = args[0]
    if isinstance(n, T):
        raise Unsupported('thread_rng_n symbolic')
    if not sched(m).rng_free:
        return 0
    return m.choose(n, 'select.start')

class PollFn:
    def __init__(self, clo):
        self.clo = clo
    def poll(self, m, ref, cx):
        return m.call_closure(Ref(self, 'clo'), [cx])
    # Ref(self,'clo') needs dict-like access:
    def get(self, k, d=None):
        return getattr(self, k, d)
    def __setitem__(self, k, v):
        setattr(self, k, v)

@I.rx(r'^tokio::macros::support::poll_fn$|^tokio::future::poll_fn::poll_fn$|^(std|core)::future::poll_fn$|^futures_util::future::poll_fn$|^futures::future::poll_fn$')
def _poll_fn(m, args, ci):
    return PollFn(args[0])

@I.rx(r'^tokio::macros::support::maybe_done$|^tokio::future::maybe_done::maybe_done$')
def _maybe_done(m, args, ci):
    return Adt('tokio::future::maybe_done::MaybeDone', 'Future', {0: args[0]})

def _md(v):
    v = deref_val(v)
    if isinstance(v, Adt) and v.ty == 'Pin':
        v = deref_val(v.fields[0])
    return v

@I.rx(r'^<(tokio::future::maybe_done::)?MaybeDone as (std::future::|futures::|core::future::)?Future>::poll$')
def _maybe_done_poll(m, args, ci):
    pin = args[0]
    ref = pin.fields[0]
    md = ref.get()
    if md.variant == 'Future':
        r = poll_value(m, Ref(md, 0), args[1])
        if is_variant(r, 'Pending'):
            return pending()
        md.variant = 'Done'
        md.fields = {0: r.fields[0]}
        return ready(unit())
    if md.variant == 'Done':
        return ready(unit())
    raise Panic('MaybeDone polled after value taken')

@I.rx(r'^(tokio::future::maybe_done::)?MaybeDone::take_output$')
def _maybe_done_take(m, args, ci):
    pin = args[0]
    md = pin.fields[0].get() if isinstance(pin, Adt) else deref_val(pin)
    if md.variant != 'Done':
        return none()
    v = md.fields[0]
    md.variant = 'Gone'
    md.fields = {}
    return some(v)

# ----------------------------------------------------------------------------
# futures::stream::FuturesUnordered
# ----------------------------------------------------------------------------
class FuturesUnordered:
    def __init__(self):
        self.items = []       # Cells holding futures
    def on_drop(self, m):
        for c in self.items:
            m.drop_value(c.v)

@I.rx(r'^(futures::stream::|futures_util::stream::futures_unordered::)?FuturesUnordered::new$')
def _fu_new(m, args, ci):
    return FuturesUnordered()

@I.rx(r'^(futures::stream::|futures_util::stream::futures_unordered::)?FuturesUnordered::push$')
def _fu_push(m, args, ci):
    fu = deref_val(args[0])
    fu.items.append(Cell(args[1]))
    return unit()

@I.rx(r'^(futures::stream::|futures_util::stream::futures_unordered::)?FuturesUnordered::(len|is_empty)$')
def _fu_len(m, args, ci):
    fu = deref_val(args[0])
    return len(fu.items) if ci.name.endswith('len') else len(fu.items) == 0

class NextFut:
    def __init__(self, stream_ref):
        self.stream_ref = stream_ref
    def poll(self, m, ref, cx):
        fu = deref_val(self.stream_ref)
        if isinstance(fu, FuturesUnordered):
            if not fu.items:
                return ready(none())
            # poll members in a nondeterministic order; the first ready one is yielded
            order = list(range(len(fu.items)))
            if len(order) > 1:
                k = m.choose(len(order), 'fu.first')
                order = order[k:] + order[:k]
            for i in order:
                r = poll_value(m, Ref(fu.items[i], 'v'), cx)
                if is_variant(r, 'Ready'):
                    del fu.items[i]
                    return ready(some(r.fields[0]))
            return pending()
        p = getattr(fu, 'poll_next', None)
        if p is not None:
            return p(m, cx)
        raise Unsupported('StreamExt::next on %r' % (fu,))

@I.rx(r'^<.* as (futures::|futures_util::|tokio_stream::)?StreamExt>::next$|^(futures::|futures_util::stream::|tokio_stream::)?StreamExt::next$')
def _stream_next(m, args, ci):
    return NextFut(args[0])

# ----------------------------------------------------------------------------
# tracing: no subscriber => MAX_LEVEL is OFF => every level check is false
# ----------------------------------------------------------------------------
@I.rx(r'^<(tracing::|tracing_core::)?(metadata::)?Level as PartialOrd>::(le|lt|ge|gt)$')
def _level_le(m, args, ci):
    return False

@I.rx(r'^(tracing::|tracing_core::)?(metadata::|level_filters::)?LevelFilter::current$')
def _level_current(m, args, ci):
    return Opaque('LevelFilter', 'OFF')

@I.rx(r'^tracing::subscriber::Interest::(never|always|sometimes)$|^(tracing_core::)?(subscriber::)?Interest::(never|always|sometimes)$')
def _interest(m, args, ci):
    return Opaque('Interest', ci.name.rsplit('::', 1)[1])

@I.rx(r'(^|::)Interest::(is_never|is_always|is_sometimes)$')
def _interest_is(m, args, ci):
    v = deref_val(args[0])
    return v.payload == ci.name.rsplit('::is_', 1)[1]

@I.rx(r'^<(tracing::callsite::|tracing_core::callsite::)?DefaultCallsite as (tracing::|tracing_core::)?(callsite::)?Callsite>::metadata$|(^|::)DefaultCallsite::(interest|register)$')
def _callsite(m, args, ci):
    if ci.name.endswith('metadata'):
        return Opaque('Metadata')
    return Opaque('Interest', 'never')

class Span:
    def __init__(self):
        pass
    def clone_hook(self, m):
        return Span()

@I.rx(r'^tracing::__macro_support::__disabled_span$|(^|::)Span::(none|current|new|new_root|child_of)$')
def _disabled_span(m, args, ci):
    return Span()

@I.rx(r'(^|::)Span::is_disabled$')
def _span_is_disabled(m, args, ci):
    return True

@I.rx(r'(^|::)Span::(record|enter|in_scope|follows_from|entered)$')
def _span_noop(m, args, ci):
    if ci.name.endswith('in_scope'):
        return m.call_closure(args[1], [])
    if ci.name.endswith('record'):
        return args[0]
    return Opaque('SpanGuard')

@I.rx(r'^tracing::__macro_support::__is_enabled$')
def _is_enabled(m, args, ci):
    return False

class Instrumented:
    def __init__(self, inner):
        self.inner = inner
    def on_drop(self, m):
        m.drop_value(self.inner)
    def poll(self, m, ref, cx):
        return poll_value(m, Ref(self, 'inner'), cx)
    def get(self, k, d=None):
        return getattr(self, k, d)
    def __setitem__(self, k, v):
        setattr(self, k, v)

@I.rx(r'^<.* as (tracing::)?Instrument>::(instrument|in_current_span)$|^(tracing::)?Instrument::(instrument|in_current_span)$')
def _instrument(m, args, ci):
    return Instrumented(args[0])

@I.rx(r'^tracing::field::(display|debug)$|^(display|debug)$|^tracing::field::Empty|(^|::)FieldSet::(iter|value_set)$|^tracing::Metadata::fields$|(^|::)Metadata::fields$')
def _tracing_field(m, args, ci):
    return Opaque('tracing_field')

@I.add('<tracing::field::Iter as Iterator>::next')
def _tracing_iter_next(m, args, ci):
    return some(Opaque('Field'))

@I.rx(r'(^|::)Event::dispatch$|^tracing::__macro_support::__tracing_log$')
def _event_dispatch(m, args, ci):
    return unit()

@I.rx(r'(^|::)Poll::(is_pending|is_ready)$')
def _poll_is(m, args, ci):
    p = deref_val(args[0])
    r = p.variant == 'Pending'
    return r if ci.name.endswith('is_pending') else not r

@I.rx(r'(^|::)Poll::map$')
def _poll_map(m, args, ci):
    p = args[0]
    if p.variant == 'Pending':
        return p
    return ready(m.call_closure(args[1], [p.fields[0]]))

# =======================================================================================================
# further tokio / futures contracts (found useful by the refactoring sweeps)
# =======================================================================================================
class TimeoutFut:
    """tokio::time::timeout(d, fut): Ok(output) if fut completes first, Err(Elapsed) once the timer fired (the timer is
    an ordinary environment-fired Timer: it can fire only after it was armed by a poll)."""
    def __init__(self, timer, fut):
        self.timer = timer
        self.fut = Cell(fut)
    def poll(self, m, ref, cx):
        r = poll_value(m, Ref(self.fut, 'v'), cx)
        if is_variant(r, 'Ready'):
            self.timer.dropped = True
            return ready(ok(r.fields[0]))
        t = self.timer.poll(m, ref, cx)
        if is_variant(t, 'Ready'):
            return ready(err(Adt('tokio::time::error::Elapsed', None, {})))
        return pending()
    def on_drop(self, m):
        self.timer.dropped = True
        m.drop_value(self.fut.v)

@I.rx(r'^tokio::time::timeout$|^tokio::time::timeout::timeout$')
def _timeout(m, args, ci):
    from .lib_std import dur_ns
    t = Timer(dur_ns(args[0]), 'timer%d' % len(m.st.timers))
    t.created_by = sched(m).cur
    m.st.timers.append(t)
    m.event('timer_created', t.label, sched(m).cur, t.dur, tuple(mutex_held_by(m, sched(m).cur)))
    return TimeoutFut(t, args[1])

class YieldFut:
    def __init__(self):
        self.done = False
    def poll(self, m, ref, cx):
        if self.done:
            return ready(unit())
        self.done = True
        sched(m).self_wake = True
        return pending()

@I.rx(r'^tokio::task::yield_now$|^tokio::task::yield_now::yield_now$')
def _yield_now(m, args, ci):
    return YieldFut()

@I.rx(r'^(tokio::sync::)?Mutex::try_lock$|^tokio::sync::mutex::Mutex::try_lock$')
def _mutex_try_lock(m, args, ci):
    mx = deref_val(args[0])
    s = sched(m)
    if mx.locked_by is None:
        mx.locked_by = s.cur
        m.event('lock', s.cur, mx.label)
        return ok(Guard(mx))
    return err(Adt('tokio::sync::TryLockError', None, {}))

@I.rx(r'^(tokio::sync::)?mpsc::(bounded::)?Sender::is_closed$')
def _mpsc_is_closed(m, args, ci):
    return not deref_val(args[0]).ch.rx_alive

class JoinAllFut:
    """futures::future::join_all / try_join_all: polls every unfinished member on each poll, in order."""
    def __init__(self, futs, try_):
        self.cells = [Cell(f) for f in futs]
        self.out = [None] * len(futs)
        self.try_ = try_
    def poll(self, m, ref, cx):
        for i, c in enumerate(self.cells):
            if self.out[i] is not None:
                continue
            r = poll_value(m, Ref(c, 'v'), cx)
            if is_variant(r, 'Ready'):
                v = r.fields[0]
                if self.try_ and is_variant(v, 'Err'):
                    return ready(v)
                self.out[i] = (v.fields[0] if self.try_ else v,)
        if all(o is not None for o in self.out):
            res = Seq([o[0] for o in self.out], 'vec')
            return ready(ok(res) if self.try_ else res)
        return pending()

@I.rx(r'(^|::)(join_all|try_join_all)$')
def _join_all(m, args, ci):
    from .lib_std import as_iter, _into_iter, IterBase
    src = args[0]
    it = src if isinstance(src, IterBase) else _into_iter(m, [src], ci)
    futs = []
    while True:
        x = it.next(m)
        if x is None:
            break
        futs.append(x)
    return JoinAllFut(futs, ci.name.endswith('try_join_all'))
