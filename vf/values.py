"""Run-time values of the symbolic abstract machine."""
from . import sym

class Adt:
    """Struct / enum variant / tuple / closure / coroutine value.
    ty: head type name as printed in MIR with generic arguments stripped.
    variant: variant *name* for enums ('Some'), 'variant#k' for coroutines, None for structs/tuples.
    fields: {index: value}."""
    __slots__ = ('ty', 'variant', 'fields', 'names', 'meta')
    def __init__(self, ty, variant=None, fields=None, names=None, meta=None):
        self.ty = ty
        self.variant = variant
        self.fields = fields if fields is not None else {}
        self.names = names
        self.meta = meta
    def __repr__(self):
        v = ('::' + str(self.variant)) if self.variant is not None else ''
        if self.names:
            body = ', '.join('%s: %r' % (self.names[i] if i < len(self.names) else i, self.fields.get(i)) for i in sorted(self.fields, key=str))
        else:
            body = ', '.join('%r' % (self.fields[i],) for i in sorted(self.fields, key=str))
        return '%s%s(%s)' % (self.ty, v, body)
    def get(self, name):
        return self.fields[self.names.index(name)]

class Moved:
    __slots__ = ()
    def __repr__(self):
        return '<moved>'
    def __deepcopy__(self, memo):
        return self
MOVED = Moved()

class Uninit:
    __slots__ = ()
    def __repr__(self):
        return '<uninit>'
    def __deepcopy__(self, memo):
        return self
UNINIT = Uninit()

def unit():
    return Adt('()', None, {})

class Cell:
    """One heap slot (target of Box / Arc / boxed futures)."""
    __slots__ = ('v', 'tag')
    def __init__(self, v, tag=''):
        self.v = v
        self.tag = tag
    def __repr__(self):
        return 'Cell(%r)' % (self.v,)

class Ref:
    """Pointer to a slot: (container, key).  container is a dict (frame), an Adt (field), a
    Seq (element), or a Cell (key 'v')."""
    __slots__ = ('obj', 'key')
    def __init__(self, obj, key):
        self.obj = obj
        self.key = key
    def get(self):
        o = self.obj
        if isinstance(o, Adt):
            return o.fields.get(self.key, UNINIT)
        if isinstance(o, Cell):
            return o.v
        if isinstance(o, Seq):
            return o.items[self.key]
        return o.get(self.key, UNINIT)
    def set(self, v):
        o = self.obj
        if isinstance(o, Adt):
            o.fields[self.key] = v
        elif isinstance(o, Cell):
            o.v = v
        elif isinstance(o, Seq):
            o.items[self.key] = v
        else:
            o[self.key] = v
    def same(self, other):
        return isinstance(other, Ref) and self.obj is other.obj and self.key == other.key
    def __repr__(self):
        try:
            return '&%r' % (self.get(),)
        except Exception:
            return '&?'

class Seq:
    """Sequence with a concrete length: Vec / array / String / Bytes backing store."""
    __slots__ = ('items', 'kind', 'tag')
    def __init__(self, items, kind='vec', tag=None):
        self.items = list(items)
        self.kind = kind
        self.tag = tag       # opaque identity for strings that stand for tokens
    def __repr__(self):
        if self.tag is not None:
            return '%s<%s>' % (self.kind, self.tag)
        if self.kind in ('str', 'bytes') and all(isinstance(x, int) for x in self.items):
            try:
                return repr(bytes(self.items))
            except Exception:
                pass
        return '%s%r' % (self.kind, self.items)
    def __len__(self):
        return len(self.items)

class Slice:
    """Fat pointer: a window [start, end) into a Seq (for &[T], &str, &mut [T])."""
    __slots__ = ('seq', 'start', 'end')
    def __init__(self, seq, start=0, end=None):
        self.seq = seq
        self.start = start
        self.end = len(seq.items) if end is None else end
    def __len__(self):
        return self.end - self.start
    def elems(self):
        return self.seq.items[self.start:self.end]
    def __repr__(self):
        return '&%s[%d..%d]' % (self.seq, self.start, self.end)

class FnItem:
    __slots__ = ('name',)
    def __init__(self, name):
        self.name = name
    def __repr__(self):
        return 'fn(%s)' % self.name

class Opaque:
    """Value the machine does not look into (formatting arguments, spans, error payloads)."""
    __slots__ = ('what', 'payload')
    def __init__(self, what, payload=None):
        self.what = what
        self.payload = payload
    def __repr__(self):
        return '<%s%s>' % (self.what, '' if self.payload is None else ' %r' % (self.payload,))

def is_concrete(v):
    return not isinstance(v, sym.T)

def copy_value(v):
    """Value copy for `copy` operands: aggregates are duplicated, pointers are shared."""
    if isinstance(v, Adt):
        return Adt(v.ty, v.variant, {k: copy_value(x) for k, x in v.fields.items()}, v.names, v.meta)
    if isinstance(v, Seq) and v.kind == 'array':
        return Seq([copy_value(x) for x in v.items], 'array', v.tag)
    return v
