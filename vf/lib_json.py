"""serde_json::Value / Map, tokio-util FramedRead / FramedWrite, futures SinkExt contracts used by the plugin
driver loop (C17 b, c).

FramedWrite + JsonCodec is a sink of JSON documents: `feed` appends one complete document (+ blank line) to the write
buffer, `flush` hands the buffer to the node, `send` = feed then flush.  The model records, per document, who fed it and
whether it was flushed; a second writer touching the sink between another writer's feed and flush would interleave
output, so that is reported (it cannot happen while the caller holds the output mutex, which is what the code relies on).
"""
import re
from . import sym
from .sym import T
from .values import Adt, Ref, Seq, Slice, Cell, Opaque, MOVED, unit
from .machine import Unsupported, Panic, last_seg
from .intrinsics import I, some, none, ok, err, ready, pending, tuple_, deref_val, clone_value, is_variant
from .lib_std import seq_of, value_eq
from .lib_tokio import sched, maybe_spurious, poll_recv, Chan, MpscSender, MpscReceiver

# ---- serde_json::Value ---------------------------------------------------------------------------
def jstring(seq):
    return Adt('serde_json::Value', 'String', {0: seq})

def jnumber(t):
    return Adt('serde_json::Value', 'Number', {0: t})

def jnull():
    return Adt('serde_json::Value', 'Null', {})

class JMap:
    def __init__(self):
        self.items = []          # [key Seq(str), value]
    def get(self, m, key_elems):
        for k, v in self.items:
            if list(k.items) == list(key_elems) and k.tag is None:
                return v
        return None
    def clone_hook(self, m):
        j = JMap()
        j.items = [(clone_value(m, k), clone_value(m, v)) for k, v in self.items]
        return j

def jobject(pairs):
    j = JMap()
    for k, v in pairs:
        j.items.append((Seq(list(k.encode()), 'str'), v))
    return Adt('serde_json::Value', 'Object', {0: j})

@I.rx(r'^serde_json::(map::)?Map::new$')
def _map_new(m, args, ci):
    return JMap()

@I.rx(r'^serde_json::(map::)?Map::insert$')
def _map_insert(m, args, ci):
    j = deref_val(args[0])
    key = args[1]
    for i, (k, v) in enumerate(j.items):
        if k.tag is None and key.tag is None and list(k.items) == list(key.items):
            j.items[i] = (key, args[2])
            return some(v)
    j.items.append((key, args[2]))
    return none()

@I.rx(r'^serde_json::(value::)?to_value$|^to_value$')
def _to_value(m, args, ci):
    v = deref_val(args[0]) if isinstance(args[0], Ref) else args[0]
    while isinstance(v, Ref):
        v = v.get()
    if isinstance(v, Adt) and last_seg(v.ty) == 'Value' and 'serde_json' in v.ty:
        return ok(clone_value(m, v))
    if isinstance(v, (Slice, Seq)):
        s, a, b = seq_of(v)
        return ok(jstring(Seq(s.items[a:b], 'str', s.tag)))
    if isinstance(v, (int, T)) and not isinstance(v, bool):
        return ok(jnumber(v))
    if isinstance(v, bool):
        return ok(Adt('serde_json::Value', 'Bool', {0: v}))
    return ok(Adt('serde_json::Value', 'Serialized', {0: Opaque('serialized', repr(v)[:60])}))

@I.rx(r'^serde_json::(value::)?Value::get$')
def _value_get(m, args, ci):
    v = deref_val(args[0])
    idx = args[1]
    if not (isinstance(v, Adt) and v.variant == 'Object'):
        return none()
    s, a, b = seq_of(idx)
    j = v.fields[0]
    for k, val in j.items:
        if k.tag is None and list(k.items) == list(s.items[a:b]):
            cell_index = j.items.index((k, val))
            return some(Ref(_PairRef(j, cell_index), 'v'))
    return none()

class _PairRef:
    """Slot view of the value of the i-th entry of a JMap."""
    def __init__(self, j, i):
        self.j = j
        self.i = i
    def get(self, k, d=None):
        return self.j.items[self.i][1]
    def __setitem__(self, k, v):
        self.j.items[self.i] = (self.j.items[self.i][0], v)

@I.rx(r'^serde_json::(value::)?Value::as_str$')
def _value_as_str(m, args, ci):
    v = deref_val(args[0])
    if isinstance(v, Adt) and v.variant == 'String':
        return some(Slice(v.fields[0]))
    return none()

@I.rx(r'^serde_json::(value::)?Value::(is_null|is_object|is_string)$')
def _value_is(m, args, ci):
    v = deref_val(args[0])
    want = {'is_null': 'Null', 'is_object': 'Object', 'is_string': 'String'}[ci.name.rsplit('::', 1)[1]]
    return isinstance(v, Adt) and v.variant == want

# ---- FramedRead as a stream of already decoded messages ------------------------------------------------
class InStream:
    def __init__(self):
        self.q = []
        self.closed = False
        self.waiters = set()
        self.delivered = 0
    def poll_next(self, m, cx):
        s = sched(m)
        if self.q:
            v = self.q.pop(0)
            self.delivered += 1
            m.event('input_next', s.cur)
            return ready(some(ok(v)))
        if self.closed:
            return ready(none())
        s.register(self.waiters)
        return pending()

# ---- FramedWrite as a sink ---------------------------------------------------------------------------
class OutSink:
    def __init__(self, mutex_label='output'):
        self.docs = []            # [value, fed_by, flushed]
        self.in_progress = None   # task that fed and has not flushed yet (through `send`)
        self.mutex_label = mutex_label
    def _check_lock(self, m, what):
        s = sched(m)
        held = [mx.label for mx in m.st.mutexes if mx.locked_by == s.cur]
        if self.mutex_label not in held:
            m.event('sink_without_lock', s.cur, what)
        if self.in_progress is not None and self.in_progress != s.cur:
            m.event('sink_interleaved', s.cur, self.in_progress, what)
    def feed(self, m, v):
        self._check_lock(m, 'feed')
        self.docs.append([v, sched(m).cur, False])
        m.event('sink_feed', sched(m).cur)
    def flush(self, m):
        self._check_lock(m, 'flush')
        for d in self.docs:
            d[2] = True
        self.in_progress = None
        m.event('sink_flush', sched(m).cur)

class SinkFut:
    """send = feed, then (after a possible suspension) flush;  feed / flush alone complete at once."""
    def __init__(self, sink_ref, kind, item=None):
        self.sink_ref = sink_ref
        self.kind = kind
        self.item = item
        self.stage = 0
    def poll(self, m, ref, cx):
        sink = deref_val(self.sink_ref)
        s = sched(m)
        if self.kind == 'feed':
            sink.feed(m, self.item)
            return ready(ok(unit()))
        if self.kind == 'flush':
            sink.flush(m)
            return ready(ok(unit()))
        if self.stage == 0:
            sink.feed(m, self.item)
            sink.in_progress = s.cur
            self.stage = 1
            if s.spurious and m.choose(2, 'yield@sink.flush') == 1:
                s.self_wake = True
                return pending()
        sink.flush(m)
        return ready(ok(unit()))

@I.rx(r'^<(tokio_util::codec::)?FramedWrite as (futures::|futures_util::)?(sink::)?SinkExt>::(send|feed|flush)$')
def _sink_op(m, args, ci):
    kind = ci.name.rsplit('::', 1)[1]
    return SinkFut(args[0], kind, args[1] if len(args) > 1 else None)

@I.rx(r'^<(tokio_util::codec::)?FramedRead as (tokio_stream::|futures::|futures_util::)?StreamExt>::next$')
def _framed_next(m, args, ci):
    from .lib_tokio import NextFut
    return NextFut(args[0])

# ---- unbounded mpsc (logging) ---------------------------------------------------------------------------
@I.rx(r'^(tokio::sync::)?mpsc::(unbounded::)?unbounded_channel$')
def _unbounded_channel(m, args, ci):
    ch = Chan(10 ** 9, 'uch%d' % len(m.st.channels))
    m.st.channels.append(ch)
    return tuple_(MpscSender(ch), MpscReceiver(ch))

@I.rx(r'^(tokio::sync::)?mpsc::(unbounded::)?UnboundedReceiver::recv$')
def _unbounded_recv(m, args, ci):
    from .lib_tokio import RecvFut
    return RecvFut(args[0])

@I.rx(r'^(tokio::sync::)?mpsc::(unbounded::)?UnboundedSender::send$')
def _unbounded_send(m, args, ci):
    tx = deref_val(args[0])
    if not tx.ch.rx_alive:
        return err(Opaque('SendError'))
    tx.ch.q.append(args[1])
    sched(m).wake(tx.ch.rx_waiters)
    return ok(unit())

# ---- boxed callbacks -----------------------------------------------------------------------------------------
class Callback:
    """Registered handler: calling it yields a future that the environment completes (any order) with Ok or Err."""
    def __init__(self, name):
        self.name = name
    def clone_hook(self, m):
        return self

class HandlerFut:
    def __init__(self, hid):
        self.hid = hid
        self.result = None
        self.waiters = set()
    def poll(self, m, ref, cx):
        if self.result is not None:
            r = self.result
            return ready(r)
        sched(m).register(self.waiters)
        return pending()

@I.rx(r'^<Box as Fn>::call$|^<(std::boxed::)?Box as (std::ops::)?Fn>::call$')
def _box_fn_call(m, args, ci):
    from .machine import box_ref, make_box
    cb = deref_val(args[0])
    if isinstance(cb, Adt) and cb.ty == 'Box':
        cb = box_ref(cb).get()
    if not isinstance(cb, Callback):
        raise Unsupported('call of boxed Fn %r' % (cb,))
    env = m.st.env
    tup = args[1]
    fut = HandlerFut(len(env.handlers))
    env.handlers.append(fut)
    env.handler_args.append(tup)
    m.event('handler_called', fut.hid, cb.name)
    return Adt('Pin', None, {0: make_box(fut)})

@I.rx(r'(^|::)unbounded_channel$')
def _unbounded_channel2(m, args, ci):
    return _unbounded_channel(m, args, ci)
