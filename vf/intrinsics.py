"""Boundary intrinsics: contracts for library functions the crate calls.

Every entry is part of the trusted base and is reported in the evidence files
(name of the callee family + the crate version it describes).
"""
import re
from . import sym
from .sym import T
from .values import Adt, Ref, Seq, Slice, Cell, FnItem, Opaque, MOVED, UNINIT, unit, copy_value
from .machine import (Unsupported, Panic, Infeasible, BoundExceeded, make_box, box_ref, str_slice,
                      type_head, last_seg, split_path, norm_callee)
from .mir import split_top, find_top

class IntrinsicTable:
    def __init__(self):
        self.exact = {}
        self.patterns = []
        self.consts = []
        self._cache = {}
    def add(self, *names):
        def deco(f):
            for n in names:
                self.exact[n] = f
            return f
        return deco
    def rx(self, pattern, prio=None):
        """Register a regex contract.  Generic `<.* as Trait>` patterns get a lower priority so that
        specific contracts registered later still win."""
        if prio is None:
            prio = -1 if pattern.startswith('^<.* as') else 0
        def deco(f):
            self.patterns.append((prio, len(self.patterns), re.compile(pattern), f))
            self.patterns.sort(key=lambda x: (-x[0], x[1]))
            self._cache.clear()
            return f
        return deco
    def lookup(self, name):
        f = self.exact.get(name)
        if f is not None:
            return f
        if name in self._cache:
            return self._cache[name]
        for _p, _n, rx, f in self.patterns:
            if rx.search(name):
                self._cache[name] = f
                return f
        self._cache[name] = None
        return None
    def const_rx(self, pattern):
        def deco(f):
            self.consts.append((re.compile(pattern), f))
            return f
        return deco
    def const(self, m, raw, name):
        for rx, f in self.consts:
            if rx.search(name):
                return f(m, raw, name)
        return None

I = IntrinsicTable()

def some(v):
    return Adt('std::option::Option', 'Some', {0: v})

def none():
    return Adt('std::option::Option', 'None', {})

def ok(v):
    return Adt('std::result::Result', 'Ok', {0: v})

def err(v):
    return Adt('std::result::Result', 'Err', {0: v})

def ready(v):
    return Adt('std::task::Poll', 'Ready', {0: v})

def pending():
    return Adt('std::task::Poll', 'Pending', {})

def is_variant(v, name):
    return isinstance(v, Adt) and v.variant == name

def tuple_(*xs):
    return Adt('tuple', None, {i: x for i, x in enumerate(xs)})

def deref_val(v):
    """Follow a Ref (or transparent smart pointer) to the pointee value."""
    while True:
        if isinstance(v, Ref):
            v = v.get()
        elif isinstance(v, Adt) and v.ty in ('Box', 'Pin', 'Unique', 'NonNull'):
            v = v.fields[0]
        else:
            return v

def qualified(raw):
    """(self type, trait head, [trait generic args], method) of a `<A as B<..>>::m` callee text."""
    segs = split_path(raw)
    head = segs[0].strip()
    if not (head.startswith('<') and head.endswith('>')):
        return None
    inner = head[1:-1]
    j = find_top(inner, ' as ')
    if j < 0:
        return None
    selfty = inner[:j].strip()
    tr = inner[j + 4:].strip()
    targs = []
    k = tr.find('<')
    thead = tr
    if k >= 0 and tr.endswith('>'):
        thead = tr[:k]
        targs = split_top(tr[k + 1:-1])
    meth = segs[-1] if not segs[-1].startswith('<') else segs[-2]
    return selfty, last_seg(thead), targs, meth

def int_ty_of(name):
    return sym.INT_TYPES.get(name)

# ----------------------------------------------------------------------------
# core::num  integer families
# ----------------------------------------------------------------------------
_NUM_RE = r'^core::num::<impl (\w+)>::'

def _numty(ci):
    m = re.match(_NUM_RE, ci.name)
    return sym.INT_TYPES[m.group(1)]

def _arith(opname, m=None):
    return {'add': sym.add, 'sub': sym.sub, 'mul': (m.mul if m is not None else sym.mul)}[opname]

@I.rx(_NUM_RE + r'checked_(add|sub|mul)$')
def _checked(m, args, ci):
    ty = _numty(ci)
    op = re.search(r'checked_(\w+)$', ci.name).group(1)
    exact = _arith(op, m)(args[0], args[1])
    if m.branch(sym.out_of_range(exact, ty), 'checked_' + op):
        return none()
    return some(exact)

@I.rx(_NUM_RE + r'saturating_(add|sub|mul)$')
def _saturating(m, args, ci):
    ty = _numty(ci)
    op = re.search(r'saturating_(\w+)$', ci.name).group(1)
    exact = _arith(op, m)(args[0], args[1])
    return sym.ite(sym.gt(exact, ty.hi), ty.hi, sym.ite(sym.lt(exact, ty.lo), ty.lo, exact))

@I.rx(_NUM_RE + r'wrapping_(add|sub|mul)$')
def _wrapping(m, args, ci):
    ty = _numty(ci)
    op = re.search(r'wrapping_(\w+)$', ci.name).group(1)
    return sym.wrap(_arith(op, m)(args[0], args[1]), ty, 1 if op != 'mul' else None)

@I.rx(_NUM_RE + r'overflowing_(add|sub|mul)$')
def _overflowing(m, args, ci):
    ty = _numty(ci)
    op = re.search(r'overflowing_(\w+)$', ci.name).group(1)
    exact = _arith(op, m)(args[0], args[1])
    return tuple_(sym.wrap(exact, ty, 1 if op != 'mul' else None), sym.out_of_range(exact, ty))

@I.rx(_NUM_RE + r'checked_(div|rem)$')
def _checked_div(m, args, ci):
    ty = _numty(ci)
    if m.branch(sym.eq(args[1], 0), 'checked_div'):
        return none()
    return some(m.divrem('Div' if ci.name.endswith('div') else 'Rem', args[0], args[1], ty))

@I.rx(_NUM_RE + r'abs_diff$')
def _abs_diff(m, args, ci):
    return sym.ite(sym.lt(args[0], args[1]), sym.sub(args[1], args[0]), sym.sub(args[0], args[1]))

@I.rx(_NUM_RE + r'(min_value|max_value)$')
def _minmax_value(m, args, ci):
    ty = _numty(ci)
    return ty.lo if ci.name.endswith('min_value') else ty.hi

@I.rx(_NUM_RE + r'to_be_bytes$')
def _to_be_bytes(m, args, ci):
    ty = _numty(ci)
    n = ty.bits // 8
    v = args[0]
    out = []
    if isinstance(v, T):
        # bytes b_i with v = sum b_i * 256^(n-1-i): fresh vars tied by one equation
        bs = [m.fresh('be') for _ in range(n)]
        total = 0
        for b in bs:
            m.pc.append(sym.and_(sym.le(0, b), sym.le(b, 255)))
            total = sym.add(sym.mul(total, 256), b)
        m.pc.append(sym.eq(total, v))
        out = bs
    else:
        vv = v % ty.mod
        out = list(vv.to_bytes(n, 'big'))
    return Seq(out, 'array')

@I.rx(_NUM_RE + r'from_be_bytes$')
def _from_be_bytes(m, args, ci):
    ty = _numty(ci)
    seq = args[0]
    total = 0
    for b in seq.items:
        total = sym.add(sym.mul(total, 256), b)
    return sym.wrap(total, ty) if ty.signed else total

@I.rx(_NUM_RE + r'(is_power_of_two|leading_zeros|trailing_zeros|count_ones|pow)$')
def _num_unsupported(m, args, ci):
    if all(isinstance(a, int) for a in args):
        ty = _numty(ci)
        n = ci.name
        if n.endswith('is_power_of_two'):
            return args[0] > 0 and (args[0] & (args[0] - 1)) == 0
        if n.endswith('pow'):
            r = args[0] ** args[1]
            if sym.out_of_range(r, ty):
                raise Panic('attempt to multiply with overflow')
            return r
        if n.endswith('leading_zeros'):
            return ty.bits - args[0].bit_length()
        if n.endswith('count_ones'):
            return bin(args[0]).count('1')
    raise Unsupported('symbolic ' + ci.name)

# ----------------------------------------------------------------------------
# comparisons: min / max / Ord / PartialEq / PartialOrd on scalars
# ----------------------------------------------------------------------------
@I.add('std::cmp::min', 'core::cmp::min', 'std::cmp::Ord::min', '<u32 as Ord>::min', '<u64 as Ord>::min',
       '<u16 as Ord>::min', '<usize as Ord>::min', '<i64 as Ord>::min')
def _min(m, args, ci):
    a, b = args
    if isinstance(a, Adt) or isinstance(b, Adt):
        raise Unsupported('min on aggregates')
    # core::cmp::min(a, b) returns a when a <= b
    return sym.ite(sym.le(a, b), a, b)

@I.add('std::cmp::max', 'core::cmp::max', 'std::cmp::Ord::max', '<u32 as Ord>::max', '<u64 as Ord>::max',
       '<u16 as Ord>::max', '<usize as Ord>::max', '<i64 as Ord>::max')
def _max(m, args, ci):
    a, b = args
    if isinstance(a, Adt) or isinstance(b, Adt):
        raise Unsupported('max on aggregates')
    # core::cmp::max(a, b) returns b when a <= b
    return sym.ite(sym.le(a, b), b, a)

_SCALAR = r'(u8|u16|u32|u64|u128|usize|i8|i16|i32|i64|i128|isize|bool|char)'

@I.rx(r'^<&?%s as PartialEq>::(eq|ne)$' % _SCALAR)
def _scalar_eq(m, args, ci):
    a, b = deref_val(args[0]), deref_val(args[1])
    r = sym.eq(a, b)
    return r if ci.name.endswith('::eq') else sym.not_(r)

@I.rx(r'^<&?%s as PartialOrd>::(lt|le|gt|ge)$' % _SCALAR)
def _scalar_ord(m, args, ci):
    a, b = deref_val(args[0]), deref_val(args[1])
    f = {'lt': sym.lt, 'le': sym.le, 'gt': sym.gt, 'ge': sym.ge}[ci.name[-2:]]
    return f(a, b)

# ----------------------------------------------------------------------------
# integer conversions
# ----------------------------------------------------------------------------
@I.rx(r'^<%s as (From|Into)>::(from|into)$' % _SCALAR)
def _int_from(m, args, ci):
    q = qualified(ci.raw)
    other = q[2][0] if q and q[2] else ''
    if other not in sym.INT_TYPES and other not in ('bool', 'char'):
        return _generic_from(m, args, ci)
    v = args[0]
    if isinstance(v, bool):
        return int(v)
    if isinstance(v, T) and v.sort == 'B':
        return sym.ite(v, 1, 0)
    return v

@I.rx(r'^<.* as (TryFrom|TryInto)>::(try_from|try_into)$')
def _int_try(m, args, ci):
    q = qualified(ci.raw)
    a, kind, b = q[0], q[1], (q[2][0] if q[2] else '')
    target = sym.INT_TYPES.get(a if kind == 'TryFrom' else b)
    source = sym.INT_TYPES.get(b if kind == 'TryFrom' else a)
    if target is None:
        # generic: the destination type tells the target (Result<target, _>)
        dty = ci.dest_type(m) or ''
        mm = re.match(r'^(?:std::result::)?Result<(\w+),', dty)
        target = sym.INT_TYPES.get(mm.group(1)) if mm else None
    if target is None:
        body = m.prog.resolve_fn(ci.raw)
        if body is None and kind == 'TryInto':
            # blanket impl<T, U: TryFrom<T>> TryInto<U> for T
            body = m.prog.keys.get('<%s as TryFrom>::try_from' % last_seg(type_head(b)))
        if body is not None:
            return m.call_body(body, args)
        raise Unsupported('try_from between ' + ci.raw)
    v = args[0]
    if not isinstance(v, (int, T)) or isinstance(v, bool):
        raise Unsupported('try_from on non-integer %r' % (v,))
    if m.branch(sym.out_of_range(v, target), 'try_from'):
        return err(Opaque('TryFromIntError'))
    return ok(v)

# ----------------------------------------------------------------------------
# Option / Result combinators
# ----------------------------------------------------------------------------
def _opt(v):
    v = deref_val(v) if isinstance(v, Ref) else v
    if not isinstance(v, Adt) or v.variant not in ('Some', 'None'):
        raise Unsupported('expected Option, got %r' % (v,))
    return v

def _res(v):
    v = deref_val(v) if isinstance(v, Ref) else v
    if not isinstance(v, Adt) or v.variant not in ('Ok', 'Err'):
        raise Unsupported('expected Result, got %r' % (v,))
    return v

@I.add('std::option::Option::is_some', 'Option::is_some')
def _is_some(m, args, ci):
    return _opt(args[0]).variant == 'Some'

@I.add('std::option::Option::is_none', 'Option::is_none')
def _is_none(m, args, ci):
    return _opt(args[0]).variant == 'None'

@I.add('std::option::Option::unwrap', 'Option::unwrap')
def _opt_unwrap(m, args, ci):
    o = _opt(args[0])
    if o.variant == 'None':
        raise Panic('called `Option::unwrap()` on a `None` value')
    return o.fields[0]

@I.add('std::option::Option::expect', 'Option::expect')
def _opt_expect(m, args, ci):
    o = _opt(args[0])
    if o.variant == 'None':
        raise Panic('Option::expect: %r' % (args[1],))
    return o.fields[0]

@I.add('std::option::Option::unwrap_or', 'Option::unwrap_or')
def _opt_unwrap_or(m, args, ci):
    o = _opt(args[0])
    return o.fields[0] if o.variant == 'Some' else args[1]

@I.add('std::option::Option::unwrap_or_default', 'Option::unwrap_or_default')
def _opt_unwrap_or_default(m, args, ci):
    o = _opt(args[0])
    if o.variant == 'Some':
        return o.fields[0]
    g = ci.generic_args()
    if g and g[0] in sym.INT_TYPES:
        return 0
    if g and g[0] == 'bool':
        return False
    raise Unsupported('unwrap_or_default of ' + str(g))

@I.add('std::option::Option::unwrap_or_else', 'Option::unwrap_or_else')
def _opt_unwrap_or_else(m, args, ci):
    o = _opt(args[0])
    return o.fields[0] if o.variant == 'Some' else m.call_closure(args[1], [])

@I.add('std::option::Option::map', 'Option::map')
def _opt_map(m, args, ci):
    o = _opt(args[0])
    if o.variant == 'None':
        return none()
    return some(m.call_closure(args[1], [o.fields[0]]))

@I.add('std::option::Option::and_then', 'Option::and_then')
def _opt_and_then(m, args, ci):
    o = _opt(args[0])
    if o.variant == 'None':
        return none()
    return m.call_closure(args[1], [o.fields[0]])

@I.add('std::option::Option::ok_or', 'Option::ok_or')
def _opt_ok_or(m, args, ci):
    o = _opt(args[0])
    return ok(o.fields[0]) if o.variant == 'Some' else err(args[1])

@I.add('std::option::Option::ok_or_else', 'Option::ok_or_else')
def _opt_ok_or_else(m, args, ci):
    o = _opt(args[0])
    return ok(o.fields[0]) if o.variant == 'Some' else err(m.call_closure(args[1], []))

@I.add('std::option::Option::as_ref', 'Option::as_ref', 'std::option::Option::as_mut', 'Option::as_mut')
def _opt_as_ref(m, args, ci):
    r = args[0]
    o = _opt(r)
    if o.variant == 'None':
        return none()
    return some(Ref(o, 0))

@I.add('std::option::Option::take', 'Option::take')
def _opt_take(m, args, ci):
    r = args[0]
    o = r.get()
    r.set(none())
    return o

@I.add('std::option::Option::cloned', 'Option::cloned', 'std::option::Option::copied', 'Option::copied')
def _opt_cloned(m, args, ci):
    o = _opt(args[0])
    if o.variant == 'None':
        return none()
    return some(clone_value(m, deref_val(o.fields[0])))

@I.add('std::option::Option::or', 'Option::or')
def _opt_or(m, args, ci):
    o = _opt(args[0])
    return o if o.variant == 'Some' else args[1]

@I.add('std::option::Option::filter', 'Option::filter')
def _opt_filter(m, args, ci):
    o = _opt(args[0])
    if o.variant == 'None':
        return none()
    keep = m.call_closure(args[1], [Ref(o, 0)])
    return o if m.branch(keep, 'Option::filter') else none()

@I.add('std::result::Result::is_ok', 'Result::is_ok')
def _is_ok(m, args, ci):
    return _res(args[0]).variant == 'Ok'

@I.add('std::result::Result::is_err', 'Result::is_err')
def _is_err(m, args, ci):
    return _res(args[0]).variant == 'Err'

@I.add('std::result::Result::ok', 'Result::ok')
def _res_ok(m, args, ci):
    r = _res(args[0])
    return some(r.fields[0]) if r.variant == 'Ok' else none()

@I.add('std::result::Result::err', 'Result::err')
def _res_err(m, args, ci):
    r = _res(args[0])
    return some(r.fields[0]) if r.variant == 'Err' else none()

@I.add('std::result::Result::unwrap', 'Result::unwrap')
def _res_unwrap(m, args, ci):
    r = _res(args[0])
    if r.variant == 'Err':
        raise Panic('called `Result::unwrap()` on an `Err` value: %r' % (r.fields[0],))
    return r.fields[0]

@I.add('std::result::Result::expect', 'Result::expect')
def _res_expect(m, args, ci):
    r = _res(args[0])
    if r.variant == 'Err':
        raise Panic('Result::expect: %r' % (r.fields[0],))
    return r.fields[0]

@I.add('std::result::Result::unwrap_or', 'Result::unwrap_or')
def _res_unwrap_or(m, args, ci):
    r = _res(args[0])
    return r.fields[0] if r.variant == 'Ok' else args[1]

@I.add('std::result::Result::unwrap_or_default', 'Result::unwrap_or_default')
def _res_unwrap_or_default(m, args, ci):
    r = _res(args[0])
    if r.variant == 'Ok':
        return r.fields[0]
    g = ci.generic_args()
    raise Unsupported('Result::unwrap_or_default ' + str(g))

@I.add('std::result::Result::map', 'Result::map')
def _res_map(m, args, ci):
    r = _res(args[0])
    if r.variant == 'Err':
        return r
    return ok(m.call_closure(args[1], [r.fields[0]]))

@I.add('std::result::Result::map_err', 'Result::map_err')
def _res_map_err(m, args, ci):
    r = _res(args[0])
    if r.variant == 'Ok':
        return r
    return err(m.call_closure(args[1], [r.fields[0]]))

@I.add('std::result::Result::and_then', 'Result::and_then')
def _res_and_then(m, args, ci):
    r = _res(args[0])
    if r.variant == 'Err':
        return r
    return m.call_closure(args[1], [r.fields[0]])

@I.rx(r'^<(std::result::)?Result as (std::ops::)?Try>::branch$')
def _res_branch(m, args, ci):
    r = _res(args[0])
    if r.variant == 'Ok':
        return Adt('std::ops::ControlFlow', 'Continue', {0: r.fields[0]})
    return Adt('std::ops::ControlFlow', 'Break', {0: err(r.fields[0])})

@I.rx(r'^<(std::option::)?Option as (std::ops::)?Try>::branch$')
def _opt_branch(m, args, ci):
    o = _opt(args[0])
    if o.variant == 'Some':
        return Adt('std::ops::ControlFlow', 'Continue', {0: o.fields[0]})
    return Adt('std::ops::ControlFlow', 'Break', {0: none()})

@I.rx(r'^<(std::option::)?Option as (std::ops::)?FromResidual>::from_residual$')
def _opt_from_residual(m, args, ci):
    return none()

@I.rx(r'^<(std::result::)?Result as (std::ops::)?FromResidual>::from_residual$')
def _res_from_residual(m, args, ci):
    r = _res(args[0])
    e = r.fields[0]
    # `?` converts the error with From; anyhow::Error::from(E) wraps; RpcError::from(...) is crate code
    conv = m.env.convert_error(m, e, ci) if (m.env is not None and hasattr(m.env, 'convert_error')) else None
    if conv is not None:
        return err(conv)
    return err(convert_error_default(m, e, ci))

def convert_error_default(m, e, ci):
    dty = ci.dest_type(m) or ''
    # the error type of the destination Result<T, E>: text after the last top-level comma
    depth, cut = 0, None
    for i, ch in enumerate(dty):
        if ch in '<([':
            depth += 1
        elif ch in '>)]':
            depth -= 1
        elif ch == ',' and depth == 1:
            cut = i
    if cut is not None:
        dty = dty[cut + 1:].strip().rstrip('>').strip()
    # Result<_, anyhow::Error> destination: wrap whatever it is
    if 'anyhow::Error' in dty and not (isinstance(e, Opaque) and e.what == 'anyhow'):
        return Opaque('anyhow', e)
    if 'RpcError' in dty and 'cln_rpc' not in dty and not (isinstance(e, Adt) and last_seg(e.ty) == 'RpcError' and e.variant in ('Rpc', 'General')):
        # crate::rpc::RpcError: the crate's own `impl From<..> for RpcError` bodies decide (src/rpc.rs); the one whose
        # parameter type fits the error value is run
        want = 'anyhow' if (isinstance(e, Opaque) and e.what == 'anyhow') else 'cln_rpc'
        for b in m.prog.prog.bodies:
            if b.kind == 'fn' and b.name and b.name.endswith('::from') and 'src/rpc.rs' in b.name:
                b.parse()
                if len(b.params) == 1 and want in b.params[0][1] and 'RpcError' in (b.ret or ''):
                    return m.call_body(b, [e])
    if 'RpcError' in dty and 'cln_rpc' not in dty:
        # (fallback contract) crate::rpc::RpcError: From<anyhow::Error> -> General, From<cln_rpc::RpcError> -> Rpc
        if isinstance(e, Adt) and last_seg(e.ty) == 'RpcError' and e.variant in ('Rpc', 'General'):
            return e
        if isinstance(e, Opaque) and e.what == 'anyhow':
            return Adt('rpc::RpcError', 'General', {0: e})
        return Adt('rpc::RpcError', 'Rpc', {0: e})
    return e

# ----------------------------------------------------------------------------
# clone
# ----------------------------------------------------------------------------
def clone_value(m, v):
    """Clone::clone of a value tree (Vec/String/structs); shared handles keep identity."""
    hook = getattr(v, 'clone_hook', None)
    if hook is not None:
        return hook(m)
    if isinstance(v, Adt):
        if v.ty in ('Arc', 'std::sync::Arc', 'Rc'):
            return Adt(v.ty, v.variant, dict(v.fields), v.names, v.meta)
        if v.ty == 'Box':
            return make_box(clone_value(m, box_ref(v).get()))
        return Adt(v.ty, v.variant, {k: clone_value(m, x) for k, x in v.fields.items()}, v.names, v.meta)
    if isinstance(v, Seq):
        return Seq([clone_value(m, x) for x in v.items], v.kind, v.tag)
    return v

@I.rx(r'^<.* as Clone>::clone$')
def _clone(m, args, ci):
    selfty = re.match(r'^<(.*) as Clone>::clone$', ci.name).group(1)
    b = m.prog.resolve_fn(ci.raw)
    if b is not None:
        return m.call_body(b, args)
    return clone_value(m, deref_val(args[0]) if isinstance(args[0], Ref) else args[0])

# ----------------------------------------------------------------------------
# Box / Arc / Pin
# ----------------------------------------------------------------------------
@I.add('std::boxed::Box::new', 'Box::new')
def _box_new(m, args, ci):
    return make_box(args[0])

@I.add('std::boxed::Box::pin', 'Box::pin')
def _box_pin(m, args, ci):
    return Adt('Pin', None, {0: make_box(args[0])})

@I.add('std::boxed::Box::new_uninit', 'Box::new_uninit')
def _box_new_uninit(m, args, ci):
    return make_box(UNINIT)

@I.rx(r'^<Box as Drop>::drop$|^<std::boxed::Box as Drop>::drop$')
def _box_drop(m, args, ci):
    return unit()

@I.add('std::sync::Arc::new', 'Arc::new')
def _arc_new(m, args, ci):
    return Adt('Arc', None, {0: Ref(Cell(args[0]), 'v')})

@I.rx(r'^<(std::sync::)?Arc as Clone>::clone$|^(std::sync::)?Arc::clone$')
def _arc_clone(m, args, ci):
    a = deref_val(args[0]) if isinstance(args[0], Ref) else args[0]
    return Adt('Arc', None, {0: a.fields[0]})

@I.rx(r'^<(std::sync::)?Arc as Deref>::deref$|^<(std::sync::)?Arc as AsRef>::as_ref$')
def _arc_deref(m, args, ci):
    a = deref_val(args[0]) if isinstance(args[0], Ref) else args[0]
    return a.fields[0]

@I.rx(r'^<(std::boxed::)?Box as Deref(Mut)?>::deref(_mut)?$')
def _box_deref(m, args, ci):
    a = deref_val(args[0]) if isinstance(args[0], Ref) else args[0]
    return box_ref(a)

@I.rx(r'^(std::pin::)?Pin::new(_unchecked)?$')
def _pin_new(m, args, ci):
    return Adt('Pin', None, {0: args[0]})

@I.rx(r'^(std::pin::)?Pin::(get_mut|get_ref|get_unchecked_mut|into_inner|into_ref|get_unchecked_mut)$')
def _pin_get(m, args, ci):
    p = args[0]
    return p.fields[0]

@I.rx(r'^(std::pin::)?Pin::as_mut$')
def _pin_as_mut(m, args, ci):
    p = deref_val(args[0]) if isinstance(args[0], Ref) else args[0]
    inner = p.fields[0]
    if isinstance(inner, Adt) and inner.ty == 'Box':
        inner = box_ref(inner)
    return Adt('Pin', None, {0: inner})

@I.rx(r'^(std::pin::)?Pin::map_unchecked_mut$')
def _pin_map_unchecked(m, args, ci):
    p = args[0]
    r = m.call_closure(args[1], [p.fields[0]])
    return Adt('Pin', None, {0: r})

@I.rx(r'^<(std::pin::)?Pin as Deref(Mut)?>::deref(_mut)?$')
def _pin_deref(m, args, ci):
    p = deref_val(args[0]) if isinstance(args[0], Ref) else args[0]
    inner = p.fields[0]
    if isinstance(inner, Adt) and inner.ty == 'Box':
        inner = box_ref(inner)
    return inner

# ----------------------------------------------------------------------------
# mem / misc
# ----------------------------------------------------------------------------
@I.add('std::mem::drop', 'core::mem::drop', 'drop')
def _mem_drop(m, args, ci):
    m.drop_value(args[0])
    return unit()

@I.add('std::mem::replace', 'core::mem::replace')
def _mem_replace(m, args, ci):
    r = args[0]
    old = r.get()
    r.set(args[1])
    return old

@I.add('std::mem::take', 'core::mem::take')
def _mem_take(m, args, ci):
    """`mem::take(&mut x)`: x := Default::default(), old value returned.  The default is built for the kinds of value
    the crate holds in such places (Vec / String, Option, integers, bool, maps); anything else is declined."""
    r = args[0]
    old = r.get()
    from .values import Seq
    from . import lib_std
    if isinstance(old, Seq):
        new = Seq([], old.kind)
    elif isinstance(old, Adt) and last_seg(old.ty or '') == 'Option' or (isinstance(old, Adt) and old.variant in ('Some', 'None') and not old.ty):
        new = none()
    elif isinstance(old, bool):
        new = False
    elif isinstance(old, int):
        new = 0
    elif isinstance(old, lib_std.HMap):
        new = lib_std.HMap()
    else:
        raise Unsupported('mem::take of ' + type(old).__name__ + ' ' + str(ci.raw)[:80])
    r.set(new)
    return old

@I.add('std::mem::forget', 'core::mem::forget')
def _mem_forget(m, args, ci):
    return unit()

@I.rx(r'(^|::)(panic|panic_fmt|panic_display|panic_explicit|unreachable_display|panic_nounwind|begin_panic)$|(^|::)panic_const::')
def _panic(m, args, ci):
    raise Panic('panic: %r' % (args[0] if args else '',), m.where())

@I.rx(r'^(core|std)::panicking::assert_failed')
def _assert_failed(m, args, ci):
    raise Panic('assertion failed', m.where())

@I.rx(r'^(core|std)::(option|result)::(expect_failed|unwrap_failed)$')
def _unwrap_failed(m, args, ci):
    raise Panic('unwrap failed', m.where())

@I.rx(r'^(core|std)::slice::index::slice_(start|end)_index_len_fail|slice_index_order_fail|panic_bounds_check')
def _slice_fail(m, args, ci):
    raise Panic('slice index out of range', m.where())

@I.rx(r'^(std|core)::hint::unreachable_unchecked$|^(std|core)::intrinsics::unreachable$')
def _unreachable(m, args, ci):
    raise Unsupported('unreachable_unchecked reached')

@I.rx(r'^(std|core)::hint::black_box$')
def _black_box(m, args, ci):
    return args[0]

@I.rx(r'^(std|core)::convert::identity$')
def _identity(m, args, ci):
    return args[0]

@I.rx(r'^<.* as (From|Into)>::(from|into)$')
def _generic_from(m, args, ci):
    """From/Into not matched elsewhere: crate-local impl if any, else identity for T -> T
    and documented std conversions."""
    b = m.prog.resolve_fn(ci.raw)
    if b is not None:
        return m.call_body(b, args)
    q = qualified(ci.raw)
    a, kind, bb = type_head(q[0]), q[1], (type_head(q[2][0]) if q[2] else '')
    if kind == 'Into' and bb:
        # blanket impl<T, U: From<T>> Into<U> for T: a crate-local From impl on the target type
        b = m.prog.keys.get('<%s as From>::from' % last_seg(bb))
        if b is not None:
            return m.call_body(b, args)
    src, dst = (bb, a) if kind == 'From' else (a, bb)
    return convert(m, args[0], src, dst, ci)

def convert(m, v, src, dst, ci):
    src_l, dst_l = last_seg(src), last_seg(dst)
    if src_l == dst_l:
        return v
    if dst_l in ('Error',) and 'anyhow' in dst:
        return Opaque('anyhow', v)
    if dst_l == 'String' and (src_l in ('&str', 'str') or src.startswith('&')):
        sl = v
        if isinstance(sl, Slice):
            return Seq(sl.elems(), 'str', sl.seq.tag)
    if dst_l == 'Vec' and isinstance(v, Slice):
        return Seq(v.elems(), 'vec')
    if dst_l == 'Vec' and isinstance(v, Seq):
        return Seq(v.items, 'vec', v.tag)
    if dst_l == 'Vec' and hasattr(v, 'as_seq'):          # bytes::Bytes / BytesMut -> Vec<u8>
        sq, a, b = v.as_seq()
        return Seq(list(sq.items[a:b]), 'vec')
    if dst_l == 'Bytes' and isinstance(v, Seq):
        from .lib_bytes import BytesBuf
        return BytesBuf(list(v.items))
    if dst_l == 'Box':
        return make_box(v)
    if dst_l == 'Arc':
        return Adt('Arc', None, {0: Ref(Cell(v), 'v')})
    if dst_l == 'Option':
        return some(v)
    raise Unsupported('conversion %s -> %s [%s]' % (src, dst, ci.name))
