"""Explicit-state exploration of scheduler-level nondeterminism with symbolic data.

A *state* is a machine State (heap of coroutine state trees, primitives, environment model, path
condition).  A *transition* is one poll of one runnable task, or one environment transition.
Inside a transition data branches fork through the Chooser and are explored by re-executing
that transition from the snapshot; between transitions states are snapshotted (deepcopy) and
deduplicated by a canonical digest.
"""
import copy
import time
import hashlib
from . import sym
from .sym import T
from .values import Adt, Ref, Seq, Slice, Cell, FnItem, Opaque, MOVED, UNINIT
from .machine import (Machine, State, Chooser, Panic, Unsupported, BoundExceeded, Infeasible)
from .intrinsics import is_variant
from . import lib_tokio
from .lib_tokio import Sched, Task, poll_value

class Violation(Exception):
    def __init__(self, kind, detail, role='', cause=''):
        Exception.__init__(self, kind)
        self.kind = kind
        self.detail = detail
        self.role = role
        self.cause = cause

# ----------------------------------------------------------------------------
# canonical digest of a State
# ----------------------------------------------------------------------------
_ATOM = (int, bool, str, float, type(None))

def digest(st, skip=('events', 'counters')):
    out = []
    ids = {}
    def walk(o):
        if isinstance(o, _ATOM):
            out.append(repr(o))
            return
        if isinstance(o, T):
            out.append('T%d' % hash(o))
            return
        i = ids.get(id(o))
        if i is not None:
            out.append('#%d' % i)
            return
        ids[id(o)] = len(ids)
        if isinstance(o, Adt):
            out.append('A(%s|%s' % (o.ty, o.variant))
            for k in sorted(o.fields, key=repr):
                out.append(repr(k))
                walk(o.fields[k])
            out.append(')')
        elif isinstance(o, Ref):
            out.append('R(')
            walk(o.obj)
            out.append(repr(o.key))
            out.append(')')
        elif isinstance(o, Seq):
            out.append('S%s(' % o.kind)
            out.append(repr(o.tag) if not isinstance(o.tag, T) else 'T%d' % hash(o.tag))
            for x in o.items:
                walk(x)
            out.append(')')
        elif isinstance(o, Slice):
            out.append('L(%d,%d' % (o.start, o.end))
            walk(o.seq)
            out.append(')')
        elif isinstance(o, (list, tuple)):
            out.append('[')
            for x in o:
                walk(x)
            out.append(']')
        elif isinstance(o, (set, frozenset)):
            out.append('{')
            for x in sorted(o, key=repr):
                walk(x)
            out.append('}')
        elif isinstance(o, dict):
            out.append('D{')
            for k in sorted(o, key=repr):
                out.append(repr(k))
                walk(o[k])
            out.append('}')
        elif isinstance(o, (FnItem,)):
            out.append('F' + o.name)
        elif isinstance(o, Opaque):
            out.append('O' + o.what)
            walk(o.payload)
        elif o is MOVED or o is UNINIT:
            out.append(repr(o))
        else:
            d = getattr(o, '__dict__', None)
            out.append('<' + type(o).__name__)
            if d is not None:
                for k in sorted(d):
                    if k.startswith('_'):
                        continue
                    out.append(k)
                    walk(d[k])
            else:
                for k in getattr(type(o), '__slots__', ()):
                    out.append(k)
                    walk(getattr(o, k, None))
            out.append('>')
    for k in sorted(st.__dict__):
        if k in skip:
            continue
        out.append(k + '=')
        v = st.__dict__[k]
        if k == 'pc':
            out.append(repr(sorted(hash(c) for c in v)))
        else:
            walk(v)
    return hashlib.blake2b('\x1f'.join(out).encode(), digest_size=16).digest()

# ----------------------------------------------------------------------------
# fast structural clone of a State (replaces copy.deepcopy: 4-5x faster on these object graphs)
# ----------------------------------------------------------------------------
_IMMUT = (int, bool, str, float, type(None), T, bytes, frozenset, FnItem)

def fastcopy(o, memo):
    if isinstance(o, _IMMUT) or o is MOVED or o is UNINIT:
        return o
    i = id(o)
    r = memo.get(i)
    if r is not None:
        return r
    t = type(o)
    if t is Adt:
        r = Adt(o.ty, o.variant, None, o.names, o.meta)
        memo[i] = r
        r.fields = {k: fastcopy(v, memo) for k, v in o.fields.items()}
        return r
    if t is Ref or (isinstance(o, Ref) and not hasattr(o, 'slice')):
        r = Ref.__new__(t)
        memo[i] = r
        r.obj = fastcopy(o.obj, memo)
        r.key = o.key
        return r
    if t is Cell:
        r = Cell(None, o.tag)
        memo[i] = r
        r.v = fastcopy(o.v, memo)
        return r
    if t is Seq:
        r = Seq((), o.kind, None)
        memo[i] = r
        r.items = [fastcopy(x, memo) for x in o.items]
        r.tag = fastcopy(o.tag, memo)
        return r
    if t is Slice:
        r = Slice.__new__(Slice)
        memo[i] = r
        r.seq = fastcopy(o.seq, memo)
        r.start = o.start
        r.end = o.end
        return r
    if t is list:
        r = []
        memo[i] = r
        r.extend(fastcopy(x, memo) for x in o)
        return r
    if t is tuple:
        r = tuple(fastcopy(x, memo) for x in o)
        memo[i] = r
        return r
    if t is dict:
        r = {}
        memo[i] = r
        for k, v in o.items():
            r[fastcopy(k, memo)] = fastcopy(v, memo)
        return r
    if t is set:
        r = set(fastcopy(x, memo) for x in o)
        memo[i] = r
        return r
    if t is Opaque:
        r = Opaque(o.what, None)
        memo[i] = r
        r.payload = fastcopy(o.payload, memo)
        return r
    d = getattr(o, '__dict__', None)
    if d is not None:
        r = t.__new__(t)
        memo[i] = r
        rd = r.__dict__
        for k, v in d.items():
            rd[k] = fastcopy(v, memo)
        return r
    slots = getattr(t, '__slots__', None)
    if slots is not None:
        r = t.__new__(t)
        memo[i] = r
        for cls in t.__mro__:
            for k in getattr(cls, '__slots__', ()):
                if hasattr(o, k):
                    setattr(r, k, fastcopy(getattr(o, k), memo))
        return r
    return copy.deepcopy(o, memo)

def clone_state(st):
    """Structural clone; append-only logs of immutable tuples are copied shallowly."""
    memo = {}
    new = State.__new__(State)
    memo[id(st)] = new
    for k, v in st.__dict__.items():
        if k in ('events', 'pc', 'lemmas'):
            new.__dict__[k] = list(v)
        else:
            new.__dict__[k] = fastcopy(v, memo)
    return new

# ----------------------------------------------------------------------------
class Trail:
    __slots__ = ('parent', 'label', 'choices')
    def __init__(self, parent, label, choices):
        self.parent = parent
        self.label = label
        self.choices = choices
    def to_list(self):
        out = []
        t = self
        while t is not None:
            out.append({'step': t.label, 'choices': [(l, c) for (l, c, n) in t.choices]})
            t = t.parent
        out.reverse()
        return out

class ExploreStats:
    def __init__(self):
        self.states = 0
        self.transitions = 0
        self.revisits = 0
        self.quiescent = 0
        self.max_depth = 0
        self.paths_in_steps = 0
        self.pruned_infeasible = 0

class Explorer:
    """Harness interface (duck-typed `h`):
         h.init(m)                       build the initial state in machine m (may use m.choose)
         h.env_transitions(m)            -> [(label, fn(m))] enabled environment transitions
         h.after_step(m, label)          invariant checks after every transition (may raise Violation)
         h.on_quiescent(m)               checks in states without enabled transitions
         h.on_task_panic(m, task, exc)   optional
         h.enabled_filter(m, trs)        optional partial-order reduction hook
    """
    def __init__(self, ctx, h, max_states=200000, max_depth=400, seed=0, time_budget=None):
        self.ctx = ctx
        self.h = h
        self.max_states = max_states
        self.max_depth = max_depth
        self.stats = ExploreStats()
        self.seen = set()
        self.violations = []
        self.inconclusive = []
        self.seed = seed
        self.deadline = (time.time() + time_budget) if time_budget else None
        self.bodies = set()
        self.intrinsics = set()
        self.samples = []
        self.stop_on_first = getattr(h, 'stop_on_first_violation', True)
        self.max_violations = getattr(h, 'max_violations', 1)

    def machine(self, st, chooser):
        m = self.ctx.machine(chooser)
        m.st = st
        self.h.configure(m) if hasattr(self.h, 'configure') else None
        return m

    def transitions(self, m):
        trs = []
        s = m.st.sched
        for t in s.tasks:
            if t.status == 'runnable':
                trs.append(('task', t.tid, 'poll %s#%d' % (t.name, t.tid)))
        for label, fn in self.h.env_transitions(m):
            trs.append(('env', fn, label))
        if hasattr(self.h, 'enabled_filter'):
            trs = self.h.enabled_filter(m, trs)
        return trs

    def run_step(self, m, tr):
        kind, x, label = tr
        if kind == 'task':
            step_task(m, x, self.h)
        elif kind == 'env':
            x(m)
        elif kind == 'init':
            self.h.init(m)
        self.h.after_step(m, label)

    # events that neither touch state shared between tasks nor are looked at by monitors
    INVISIBLE = ('rpc_return', 'task_done', 'timer_armed', 'htlc_response')

    def invisible(self, m, nev0):
        hook = getattr(self.h, 'invisible_event', None)
        for ev in m.st.events[nev0:]:
            k = ev[0]
            if k in self.INVISIBLE:
                continue
            if k == 'rpc_call' and ev[2] != 'pay':
                continue
            if hook is not None and hook(ev):
                continue
            return False
        return True

    def run_transition(self, st, tr, trail):
        """All data branches of one transition from snapshot st.
        Returns [(outcome, machine, trail, invisible?)]."""
        out = []
        work = [[]]
        label = tr[2]
        while work:
            prefix = work.pop()
            ch = Chooser(prefix)
            m = self.machine(clone_state(st), ch)
            nev0 = len(m.st.events)
            tr_run = tr
            if tr[0] == 'env':
                fn = None
                for lab, f in self.h.env_transitions(m):
                    if lab == label:
                        fn = f
                        break
                if fn is None:
                    self.inconclusive.append('env transition %s vanished on re-execution' % label)
                    continue
                tr_run = ('env', fn, label)
            viol = None
            try:
                self.run_step(m, tr_run)
                outcome = 'ok'
            except Violation as v:
                viol = v
                outcome = 'violation'
            except Infeasible:
                outcome = 'infeasible'
                self.stats.pruned_infeasible += 1
            except Unsupported as e:
                outcome = 'unsupported'
                self.inconclusive.append('unsupported: %s (at %s)' % (e, label))
            except BoundExceeded as e:
                outcome = 'bound'
                self.inconclusive.append('bound: %s (at %s)' % (e, label))
            except sym.Unknown as e:
                outcome = 'unsupported'
                self.inconclusive.append('solver: %s (at %s)' % (e, label))
            except Panic as e:
                outcome = 'unsupported'
                self.inconclusive.append('panic outside a task: %s (at %s)' % (e.msg, label))
            self.stats.paths_in_steps += 1
            self.bodies |= m.bodies_run
            self.intrinsics |= m.intrinsics_hit
            work.extend(ch.alts)
            ntrail = Trail(trail, label, list(ch.labels))
            inv = outcome == 'ok' and tr[0] == 'task' and self.invisible(m, nev0)
            out.append((outcome, m, ntrail, inv, viol))
        return out

    def explore(self):
        import random
        rnd = random.Random(self.seed)
        st0 = State()
        st0.sched = Sched()
        # frontier: states to expand  (state, trail, depth); the initial pseudo-state expands by 'init'
        work = [(st0, None, 0, [('init', None, 'init')], frozenset())]
        por = getattr(self.h, 'por', True)
        # sleep sets (with the sleep set as part of the visited key) are off by default: measured, they re-explore more
        # states than they save on these harnesses
        indep = getattr(self.h, 'independent', None) if (por and getattr(self.h, 'use_sleep_sets', False)) else None
        while work:
            if self.deadline and time.time() > self.deadline:
                self.inconclusive.append('time budget exhausted with %d frontier entries' % len(work))
                break
            if len(self.inconclusive) > 50:
                break
            st, trail, depth, trs, sleep = work.pop()
            results = []
            chosen = None
            for tr in trs:
                if tr[2] in sleep:
                    continue
                res = self.run_transition(st, tr, trail)
                results.append((tr, res))
                if por and tr[0] == 'task' and res and all(r[3] for r in res):
                    # an invisible, independent transition: exploring it alone loses no behaviour
                    chosen = (tr, res)
                    break
            if chosen is not None:
                results = [chosen]
                self.stats.por_singletons = getattr(self.stats, 'por_singletons', 0) + 1
            succs = []
            done_labels = []
            for tr, res in results:
                # sleep set for the successors of tr: everything asleep here or already explored from here that is
                # independent of tr stays asleep
                if indep is not None:
                    m0 = res[0][1] if res else None
                    cand = set(sleep) | set(done_labels)
                    nsleep = frozenset(u for u in cand if m0 is not None and indep(m0, u, tr[2]))
                else:
                    nsleep = frozenset()
                done_labels.append(tr[2])
                for outcome, m, ntrail, inv, viol in res:
                    if outcome == 'violation':
                        self.violations.append((viol, ntrail, m))
                        if self.stop_on_first or len(self.violations) >= self.max_violations:
                            return
                        continue
                    if outcome != 'ok':
                        continue
                    self.stats.transitions += 1
                    d = digest(m.st)
                    key = (d, nsleep) if nsleep else d
                    if key in self.seen or d in self.seen:
                        self.stats.revisits += 1
                        continue
                    self.seen.add(key)
                    self.stats.states += 1
                    if depth + 1 > self.stats.max_depth:
                        self.stats.max_depth = depth + 1
                    succs.append((m, ntrail, nsleep))
            if self.stats.states > self.max_states:
                self.inconclusive.append('state budget %d exceeded' % self.max_states)
                break
            for m, ntrail, nsleep in succs:
                if hasattr(self.h, 'is_terminal') and self.h.is_terminal(m):
                    self.stats.quiescent += 1
                    if len(self.samples) < 6:
                        self.samples.append({'trail': ntrail.to_list(), 'final_events': [list(map(_short, e)) for e in m.events[-40:]]})
                    continue
                ntrs = self.transitions(m)
                if not ntrs:
                    self.stats.quiescent += 1
                    try:
                        self.h.on_quiescent(m)
                    except Violation as v:
                        self.violations.append((v, ntrail, m))
                        if self.stop_on_first or len(self.violations) >= self.max_violations:
                            return
                    if len(self.samples) < 6:
                        self.samples.append({'trail': ntrail.to_list(), 'final_events': [list(map(_short, e)) for e in m.events[-40:]]})
                    continue
                if depth + 1 >= self.max_depth:
                    self.inconclusive.append('depth bound %d reached' % self.max_depth)
                    continue
                if self.seed:
                    rnd.shuffle(ntrs)
                # task polls first: they are the candidates for invisible singleton steps
                ntrs.sort(key=lambda t: 0 if t[0] == 'task' else 1)
                live_sleep = frozenset(l for l in nsleep if any(t[2] == l for t in ntrs))
                work.append((m.st, ntrail, depth + 1, ntrs, live_sleep))

def _short(x):
    if isinstance(x, T):
        return sym.show(x)
    if isinstance(x, (int, str, bool)) or x is None:
        return x
    return repr(x)[:120]

def step_task(m, tid, h=None):
    s = m.st.sched
    t = s.tasks[tid]
    s.cur = tid
    s.self_wake = False
    t.polls += 1
    if t.polls > getattr(h, 'max_polls', 200):
        raise BoundExceeded('task %s polled %d times' % (t.name, t.polls))
    try:
        r = poll_value(m, Ref(t.root, 'v'), Opaque('cx', tid))
    except Panic as e:
        t.status = 'panicked'
        t.panic = str(e.msg)
        m.event('task_panic', tid, t.name, str(e.msg)[:200])
        # the future is dropped by the runtime: run its drop glue (guards unlock, senders close)
        try:
            m.drop_value(t.root.v)
        except Exception:
            pass
        t.root.v = MOVED
        s.wake(t.join_waiters)
        s.cur = None
        if h is not None and hasattr(h, 'on_task_panic'):
            h.on_task_panic(m, t, e)
        return
    if is_variant(r, 'Ready'):
        t.status = 'done'
        t.result = r.fields.get(0)
        m.event('task_done', tid, t.name)
        m.drop_value(t.root.v)
        t.root.v = MOVED
        s.wake(t.join_waiters)
    else:
        t.status = 'runnable' if s.self_wake else 'blocked'
    s.cur = None
