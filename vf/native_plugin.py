"""Native replay of startup (C19): runs the real `trampoline` binary built from /repo's working tree, talks the plugin
protocol over its stdin/stdout and plays lightningd's RPC socket (getinfo) on a unix socket."""
import os
import json
import time
import fcntl
import socket
import select
import threading
import subprocess
import tempfile
from . import dump

TARGET = os.path.join(dump.CACHE, 'target-plugin')
NODE_ID = '02c8e87a7ab29092eba909533919c508839aea48d8e6a88c39c42a0f198a5f6401'

def build_plugin():
    os.makedirs(dump.CACHE, exist_ok=True)
    lock = open(os.path.join(dump.CACHE, 'plugin.lock'), 'w')
    fcntl.flock(lock, fcntl.LOCK_EX)
    try:
        env = dict(os.environ)
        env['CARGO_TARGET_DIR'] = TARGET
        env['CARGO_NET_OFFLINE'] = 'true'
        p = subprocess.run(['cargo', 'build', '--offline', '--quiet', '--manifest-path', os.path.join(dump.REPO, 'Cargo.toml')],
                           cwd=dump.REPO, env=env, stdout=subprocess.PIPE, stderr=subprocess.PIPE, text=True)
        if p.returncode != 0:
            raise RuntimeError('plugin does not build: ' + p.stderr[-1500:])
        return os.path.join(TARGET, 'debug', 'trampoline')
    finally:
        fcntl.flock(lock, fcntl.LOCK_UN)
        lock.close()

class FakeLightningd:
    def __init__(self, height=100):
        self.dir = tempfile.mkdtemp(prefix='verif-ld-', dir=os.path.join(dump.VERIF, 'out'))
        self.path = os.path.join(self.dir, 'lightning-rpc')
        self.srv = socket.socket(socket.AF_UNIX, socket.SOCK_STREAM)
        self.srv.bind(self.path)
        self.srv.listen(8)
        self.calls = []
        self.height = height
        self.stop = False
        self.t = threading.Thread(target=self.loop, daemon=True)
        self.t.start()
    def loop(self):
        self.srv.settimeout(0.2)
        while not self.stop:
            try:
                conn, _ = self.srv.accept()
            except socket.timeout:
                continue
            except OSError:
                return
            try:
                conn.settimeout(2)
                buf = b''
                while b'\n\n' not in buf:
                    d = conn.recv(65536)
                    if not d:
                        break
                    buf += d
                req = json.loads(buf.decode().strip() or '{}')
                self.calls.append(req)
                if req.get('method') == 'getinfo':
                    res = {'id': NODE_ID, 'alias': 'verif', 'color': '02c8e8', 'num_peers': 0, 'num_pending_channels': 0,
                           'num_active_channels': 0, 'num_inactive_channels': 0, 'version': 'v24.05', 'blockheight': self.height,
                           'network': 'regtest', 'fees_collected_msat': 0, 'lightning-dir': self.dir, 'address': [], 'binding': []}
                    conn.sendall((json.dumps({'jsonrpc': '2.0', 'id': req.get('id'), 'result': res}) + '\n\n').encode())
                else:
                    conn.sendall((json.dumps({'jsonrpc': '2.0', 'id': req.get('id'), 'error': {'code': -32601, 'message': 'not simulated'}}) + '\n\n').encode())
            except Exception:
                pass
            finally:
                conn.close()
    def close(self):
        self.stop = True
        try:
            self.srv.close()
        except OSError:
            pass
        try:
            os.remove(self.path)
            os.rmdir(self.dir)
        except OSError:
            pass

def startup(options, flags, timeout=20):
    """options: {name: int}, flags: {name: bool}.  Returns {'started': bool, 'init_reply': .., 'exit': ..}."""
    binp = build_plugin()
    ld = FakeLightningd()
    try:
        p = subprocess.Popen([binp], stdin=subprocess.PIPE, stdout=subprocess.PIPE, stderr=subprocess.PIPE)
        opts = {k: int(v) for k, v in options.items()}
        for k, v in flags.items():
            opts[k] = bool(v)
        getmanifest = {'jsonrpc': '2.0', 'id': 'm', 'method': 'getmanifest', 'params': {'allow-deprecated-apis': False}}
        init = {'jsonrpc': '2.0', 'id': 'i', 'method': 'init', 'params': {'options': opts, 'configuration': {
            'lightning-dir': ld.dir, 'rpc-file': ld.path, 'startup': True, 'network': 'regtest', 'feature_set': {}}}}
        p.stdin.write((json.dumps(getmanifest) + '\n\n' + json.dumps(init) + '\n\n').encode())
        p.stdin.flush()
        buf = b''
        replies = {}
        t0 = time.time()
        exitcode = None
        while time.time() - t0 < timeout:
            r, _, _ = select.select([p.stdout], [], [], 0.2)
            if r:
                d = os.read(p.stdout.fileno(), 65536)
                if d:
                    buf += d
                    while b'\n\n' in buf:
                        msg, buf = buf.split(b'\n\n', 1)
                        try:
                            j = json.loads(msg.decode())
                        except Exception:
                            continue
                        if 'id' in j:
                            replies[j['id']] = j
            exitcode = p.poll()
            if 'i' in replies or exitcode is not None:
                time.sleep(0.3)
                exitcode = p.poll()
                break
        init_reply = replies.get('i')
        started = bool(init_reply is not None and 'result' in init_reply and not init_reply['result'].get('disable') and exitcode is None)
        try:
            p.kill()
        except Exception:
            pass
        err = b''
        try:
            err = p.stderr.read()[-400:]
        except Exception:
            pass
        return {'outcome': 'ok', 'started': started, 'init_reply': init_reply, 'exit': exitcode, 'manifest': 'm' in replies,
                'rpc_calls': [c.get('method') for c in ld.calls], 'stderr': err.decode(errors='replace')}
    finally:
        ld.close()

def burst(n, timeout=20):
    """Start the plugin, then send n htlc_accepted requests (plain forwards: answered with `continue` at once) in a
    single write and collect the replies for a few seconds."""
    binp = build_plugin()
    ld = FakeLightningd()
    try:
        p = subprocess.Popen([binp], stdin=subprocess.PIPE, stdout=subprocess.PIPE, stderr=subprocess.PIPE)
        getmanifest = {'jsonrpc': '2.0', 'id': 'm', 'method': 'getmanifest', 'params': {'allow-deprecated-apis': False}}
        init = {'jsonrpc': '2.0', 'id': 'i', 'method': 'init', 'params': {'options': {}, 'configuration': {
            'lightning-dir': ld.dir, 'rpc-file': ld.path, 'startup': True, 'network': 'regtest', 'feature_set': {}}}}
        p.stdin.write((json.dumps(getmanifest) + '\n\n' + json.dumps(init) + '\n\n').encode())
        p.stdin.flush()
        buf = b''
        replies = []
        def pump(seconds, until=None):
            nonlocal buf
            t0 = time.time()
            while time.time() - t0 < seconds:
                r, _, _ = select.select([p.stdout], [], [], 0.1)
                if r:
                    d = os.read(p.stdout.fileno(), 65536)
                    if d:
                        buf += d
                        while b'\n\n' in buf:
                            msg, buf = buf.split(b'\n\n', 1)
                            try:
                                j = json.loads(msg.decode())
                            except Exception:
                                replies.append({'garbled': msg[:80].decode(errors='replace')})
                                continue
                            if 'id' in j:
                                replies.append(j)
                if until is not None and until():
                    return
        pump(timeout, lambda: any(r.get('id') == 'i' for r in replies))
        ids = ['r%d' % k for k in range(n)]
        reqs = b''
        for rid in ids:
            req = {'jsonrpc': '2.0', 'id': rid, 'method': 'htlc_accepted', 'params': {
                'onion': {'payload': '', 'short_channel_id': '1x2x3', 'forward_msat': 1000, 'total_msat': 1000},
                'htlc': {'short_channel_id': '4x5x6', 'id': 1, 'amount_msat': 1000, 'cltv_expiry': 500, 'cltv_expiry_relative': 100,
                         'payment_hash': '00' * 32}}}
            reqs += (json.dumps(req) + '\n\n').encode()
        p.stdin.write(reqs)
        p.stdin.flush()
        pump(4)
        try:
            p.kill()
        except Exception:
            pass
        return {'outcome': 'ok', 'request_ids': ids, 'reply_ids': [r.get('id') for r in replies if r.get('id') in ids],
                'garbled': [r for r in replies if 'garbled' in r]}
    finally:
        ld.close()
