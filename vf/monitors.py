"""Property monitors for the full-stack scenario harness (see scenario.py)."""
from . import sym
from .sym import T
from .values import Adt, Seq
from .intrinsics import is_variant
from .sched import Violation
from .scenario import (registered_htlcs, table_entry, held_htlcs, fail_code, resp_is, U64)
from .env_node import field, preimage_of, hash_term
from . import lib_std

def specs_of(m):
    return {s.idx: s for s in m.st.roots['specs']}

def fee_ok_term(m, total, amount):
    """The exact C12 predicate as a term over the (abstracted) product shared with the implementation."""
    base, ppm, _d = m.st.roots['policy']
    p = m.mul(amount, ppm)
    q = m.divrem('Div', p, 1000000, None)
    return sym.and_(sym.le(p, U64.hi), sym.le(sym.add(base, q), U64.hi), sym.le(sym.add(sym.add(amount, base), q), U64.hi),
                    sym.ge(total, sym.add(sym.add(amount, base), q)))

def deliver_term(m, sc, spec):
    inv = sc.cfg['invoices'][spec.invoice]
    if inv.amount is not None:
        return inv.amount
    return sym.var('tlv_amount')

def declared_total(spec):
    fwd = spec.amount if spec.forward == 'amount' else spec.forward
    return spec.total if spec.total is not None else fwd

def reject_term(m, sc, spec):
    """HTLC-level policy rejection (fee on the declared total, relative expiry)."""
    _b, _p, delta = m.st.roots['policy']
    return sym.or_(sym.not_(fee_ok_term(m, declared_total(spec), deliver_term(m, sc, spec))), sym.lt(spec.cltv_rel, delta))

def oneshot_value(m, label):
    for ch in m.st.oneshots:
        if ch.label == label:
            return ch.value
    return None

def policy_bytes_term(m):
    base, ppm, delta = m.st.roots['policy']
    return base, ppm, delta

def be_value(items):
    t = 0
    for x in items:
        t = sym.add(sym.mul(t, 256), x)
    return t

def is_policy_failure(m, resp):
    """Bool term: resp is Fail{20 1a be32(base) be32(ppm) be16(delta)} with the configured policy."""
    if not resp_is(resp, 'Fail'):
        return False
    v = resp.fields[0]
    if not isinstance(v, Seq) or len(v.items) != 12:
        return False
    base, ppm, delta = m.st.roots['policy']
    return sym.and_(sym.eq(v.items[0], 0x20), sym.eq(v.items[1], 26), sym.eq(be_value(v.items[2:6]), base),
                    sym.eq(be_value(v.items[6:10]), ppm), sym.eq(be_value(v.items[10:12]), delta))

def model_public(mdl):
    return {k: v for k, v in (mdl or {}).items() if '!' not in k}

def raise_if(m, bad, kind, detail, role, cause):
    mdl = m.violation_model(bad)
    if mdl is not None:
        if bad is not True:
            m.pc.append(bad)
        d = dict(detail)
        d['model'] = model_public(mdl)
        raise Violation(kind, d, role, cause)

# ---------------------------------------------------------------------------------------------
class Decisions:
    """Common bookkeeping: which response each HTLC was given and in which step."""
    def after_step(self, m, sc, label, new):
        st = m.st
        sends = [ev for ev in new if ev[0] == 'oneshot_send']
        if sends:
            dec = st.roots.setdefault('decision_values', {})
            for ev in sends:
                key = st.roots.get('os_of', {}).get(ev[1])
                if key is not None:
                    dec[key] = (oneshot_value(m, ev[1]), len(st.events), ev[2])

class SameResolution(Decisions):
    """C07(a): one resolution event answers every registered listener with one and the same response."""
    def after_step(self, m, sc, label, new):
        Decisions.after_step(self, m, sc, label, new)
        st = m.st
        sends = [ev for ev in new if ev[0] == 'oneshot_send' and st.sched.tasks[ev[2]].name.startswith('{')]
        if not sends:
            return
        vals = [oneshot_value(m, ev[1]) for ev in sends]
        first = vals[0]
        for v in vals[1:]:
            same = lib_std.value_eq(m, first, v) if (first is not None and v is not None) else False
            raise_if(m, sym.not_(same), 'different-resolutions', {'responses': [repr(x)[:80] for x in vals]}, 'lifecycle.resolve', 'mixed')
        # after a resolution no listener of that entry may remain registered
        left = registered_htlcs(m)
        answered = [st.roots.get('os_of', {}).get(ev[1]) for ev in sends]
        same_entry_left = [k for k in left if True]
        if same_entry_left and len(sc.cfg['invoices']) == 1:
            raise Violation('listener-left-behind', {'left': same_entry_left, 'answered': answered}, 'lifecycle.resolve', 'partial')

class NoPayAfterRejection:
    """C07(b) / C04 / C12: an HTLC that triggers a rejection on a still-incomplete set => no pay for that entry."""
    def __init__(self, kinds=('fee', 'expiry', 'mismatch')):
        self.kinds = kinds
    def after_step(self, m, sc, label, new):
        st = m.st
        specs = specs_of(m)
        # registration: remember, per HTLC, whether the set was complete before it arrived
        reg = st.roots.setdefault('reg_info', {})
        for ev in new:
            if ev[0] == 'lock' and ev[2] == 'payments':
                k = st.roots['task_of'].get(ev[1])
                if k is not None and k not in reg and k in registered_htlcs(m):
                    others = [j for j in registered_htlcs(m) if j != k]
                    tot = 0
                    for j in others:
                        tot = sym.add(tot, specs[j].amount)
                    dl = deliver_term(m, sc, specs[k])
                    reg[k] = fee_ok_term(m, tot, dl)          # complete-before-k
        for ev in new:
            if ev[0] == 'rpc_call' and ev[2] == 'pay':
                for k in registered_htlcs(m):
                    if k not in reg:
                        continue
                    spec = specs[k]
                    rej = []
                    base, ppm, delta = st.roots['policy']
                    if 'fee' in self.kinds:
                        rej.append(sym.not_(fee_ok_term(m, declared_total(spec), deliver_term(m, sc, spec))))
                    if 'expiry' in self.kinds:
                        rej.append(sym.lt(spec.cltv_rel, delta))
                    bad = sym.and_(sym.not_(reg[k]), sym.or_(*rej))
                    raise_if(m, bad, 'pay-after-rejection', {'htlc': k}, 'lifecycle.pay', 'rejecting-htlc-on-incomplete-set')

class MismatchRejection:
    """C07(b), conflicting trampoline info: two HTLCs of one hash carrying different invoices / amounts
    while the set is incomplete => no pay, everyone failed."""
    def after_step(self, m, sc, label, new):
        for ev in new:
            if ev[0] == 'rpc_call' and ev[2] == 'pay':
                specs = specs_of(m)
                regs = registered_htlcs(m)
                conflict = m.st.roots.get('conflict_pairs', [])
                for (a, b) in conflict:
                    if a in regs and b in regs:
                        raise Violation('pay-with-conflicting-info', {'htlcs': [a, b]}, 'lifecycle.pay', 'conflicting-trampoline-info')

class PolicyFailures(Decisions):
    """C12(c): every fee-or-expiry failure carries the configured policy.
       C12(d): first HTLC of a Free payment failing the fee test / expiry gets that failure."""
    def __init__(self, gate=True):
        self.gate = gate
    def on_response(self, m, sc, k, resp):
        st = m.st
        specs = specs_of(m)
        code = fail_code(resp)
        if code is not None and not isinstance(code[1], T) and code == (0x20, 26):
            raise_if(m, sym.not_(is_policy_failure(m, resp)), 'policy-not-carried', {'htlc': k}, 'htlc.response[fee_or_expiry]', 'policy-bytes')
        if self.gate and k == 0 and st.roots.get('store_init') in ('free', 'absent', 'free_absent') and st.env.faults_used == 0:
            spec = specs[k]
            if spec.invoice is None or spec.scid:
                return
            rej = reject_term(m, sc, spec)
            # only when this HTLC was the first of its payment (registered alone) and classified as trampoline
            if st.roots.get('first_registered') != k:
                return
            okresp = is_policy_failure(m, resp)
            raise_if(m, sym.and_(rej, sym.not_(okresp)), 'gate-not-enforced', {'htlc': k, 'response': resp.variant}, 'htlc.response[first]', 'fee-or-expiry-gate')
    def after_step(self, m, sc, label, new):
        Decisions.after_step(self, m, sc, label, new)
        st = m.st
        if 'first_registered' not in st.roots:
            regs = registered_htlcs(m)
            if regs:
                st.roots['first_registered'] = regs[0]

class ExpiryBudget:
    """C04: maxdelay <= max(0, min expiry of the HTLCs held at initiation - height then - cltv_delta), <= policy delta."""
    def after_step(self, m, sc, label, new):
        st = m.st
        specs = specs_of(m)
        # initiation = the lifecycle step that consumed `payment_ready` and read the table
        for i, ev in enumerate(new):
            if ev[0] == 'mpsc_recv' and ev[2] == 'ch0' or (ev[0] == 'mpsc_recv' and ev[2].endswith('0') and False):
                pass
        ready_recv = [ev for ev in new if ev[0] == 'mpsc_recv' and st.sched.tasks[ev[1]].name.startswith('{')]
        lock_by_lc = [ev for ev in new if ev[0] == 'lock' and ev[2] == 'payments' and st.sched.tasks[ev[1]].name.startswith('{')]
        if ready_recv and not lock_by_lc and st.roots.get('c04_init') is None:
            # a lifecycle that does not read the table after the ready signal (e.g. it takes the figures from the signal
            # itself) initiates the payment when it consumes the signal: the HTLCs registered by then are held for it
            regs = registered_htlcs(m)
            if regs:
                mn = None
                for k in regs:
                    ce = specs[k].cltv_expiry
                    mn = ce if mn is None else sym.ite(sym.lt(ce, mn), ce, mn)
                st.roots['c04_init'] = (mn, st.roots.get('height_applied', st.roots['hmx'].cell.v), list(regs))
        if lock_by_lc and not any(e[0] == 'oneshot_send' for e in new):
            regs = registered_htlcs(m)
            if regs:
                mn = None
                for k in regs:
                    ce = specs[k].cltv_expiry
                    mn = ce if mn is None else sym.ite(sym.lt(ce, mn), ce, mn)
                # the height the budget is measured against: the highest one the plugin has finished processing
                # (equal to the height cell unless the update path lost it)
                st.roots['c04_init'] = (mn, st.roots.get('height_applied', st.roots['hmx'].cell.v), list(regs))
        for ev in new:
            if ev[0] == 'rpc_call' and ev[2] == 'pay':
                init = st.roots.get('c04_init')
                if init is None:
                    raise Violation('pay-without-initiation', {}, 'lifecycle.pay', 'no-table-read')
                mn, height, regs = init
                req = st.env.calls[ev[1]].args
                md = field(m, req, 'maxdelay')
                _b, _p, pdelta = st.roots['policy']
                cd = st.roots['cltv_delta']
                if not is_variant(md, 'Some'):
                    raise Violation('maxdelay-missing', {}, 'lifecycle.pay', 'maxdelay')
                d = md.fields[0]
                room = sym.sub(sym.sub(mn, height), cd)
                bound = sym.ite(sym.lt(room, 0), 0, room)
                bad = sym.or_(sym.gt(d, bound), sym.gt(d, pdelta))
                raise_if(m, bad, 'expiry-budget', {'held_at_initiation': regs}, 'lifecycle.pay', 'maxdelay')

class SettleOwnHash(Decisions):
    """C01: Resolve only with pre(htlc hash); pay only for HTLCs whose hash is the invoice's."""
    def after_step(self, m, sc, label, new):
        Decisions.after_step(self, m, sc, label, new)
        st = m.st
        specs = specs_of(m)
        for ev in new:
            if ev[0] == 'oneshot_send':
                key = st.roots.get('os_of', {}).get(ev[1])
                if key is None:
                    continue
                v = oneshot_value(m, ev[1])
                if resp_is(v, 'Resolve'):
                    pk = v.fields[0]
                    tag = getattr(pk, 'tag', None)
                    spec = specs[key[1]]
                    if tag is None:
                        raise Violation('resolve-with-unknown-key', {'htlc': key[1]}, 'htlc.response[resolve]', 'provenance')
                    raise_if(m, sym.ne(tag, preimage_of(spec.hash)), 'resolve-with-foreign-preimage', {'htlc': key[1]},
                             'htlc.response[resolve]', 'preimage-of-other-hash')
            if ev[0] == 'rpc_call' and ev[2] == 'pay':
                call = st.env.calls[ev[1]]
                h = st.env.pay_hash(m, call)
                for k in registered_htlcs(m):
                    raise_if(m, sym.ne(specs[k].hash, h), 'pay-for-foreign-htlc', {'htlc': k}, 'lifecycle.pay', 'hash-mismatch')
        # write side: Succeeded records hold the preimage of their key's hash
        for key, ent in st.env.datastore.items():
            if key[-1] == 'state' and isinstance(ent[0], Seq) and isinstance(ent[0].tag, lib_std.JsonTok):
                v = ent[0].tag.value
                if isinstance(v, Adt) and v.variant == 'Succeeded':
                    pre = v.fields[0]
                    tag = getattr(pre, 'tag', None)
                    kh = key_hash(key)
                    if tag is None:
                        raise Violation('succeeded-without-preimage', {}, 'store.succeeded', 'preimage')
                    raise_if(m, sym.ne(tag, preimage_of(kh)), 'succeeded-with-foreign-preimage', {}, 'store.succeeded', 'preimage-of-other-hash')

def key_hash(key):
    """The payment hash a datastore key names: its third element must be the hex token of a hash term (the hex
    encoding contract, injective).  Anything else -- a key built some other way -- cannot be related to a hash by this
    model: the run is inconclusive, never silently accepted."""
    from .machine import Unsupported
    el = key[2] if len(key) > 2 else None
    if isinstance(el, tuple) and len(el) == 2 and el[0] == 'tok':
        return el[1]
    raise Unsupported('datastore key %r does not carry the hex encoding of a payment hash in its third element: '
                      'which hash it belongs to (and that different hashes get different keys) cannot be established' % (key,))

class NoPanicNoHang:
    """C06: no task panics; no blocking send under the payments lock; in quiescent states nobody waits."""
    def on_task_panic(self, m, sc, task, exc):
        role = 'lifecycle' if task.name.startswith('{') else 'handler'
        msg = str(exc.msg)
        if 'twice (deadlock)' in msg:
            # tokio's Mutex does not panic on a re-lock by its holder: the task waits for itself forever, with the lock held
            raise Violation('self-deadlock', {'task': task.name[:60], 'what': msg[:120]}, 'lock', 'relock')
        cause = 'todo-pending-wait-error' if 'not yet implemented' in msg or 'Failed to await pending payment' in msg else 'panic'
        raise Violation('task-panic', {'task': task.name[:60], 'panic': msg[:200]}, role + '.panic', cause)
    def after_step(self, m, sc, label, new):
        for ev in new:
            if ev[0] == 'mpsc_send_blocked' and 'payments' in ev[3]:
                raise Violation('blocking-send-under-lock', {'task': ev[1], 'channel': ev[2]}, 'handler.send', 'payments-lock-held')
            if ev[0] == 'deadlock':
                raise Violation('self-deadlock', {'task': ev[1]}, 'lock', 'relock')
    def on_quiescent(self, m, sc):
        st = m.st
        waiting = [st.roots['task_of'][t.tid] for t in st.sched.tasks if t.tid in st.roots['task_of'] and t.status == 'blocked']
        if waiting:
            pan = [t.panic for t in st.sched.tasks if t.status == 'panicked']
            raise Violation('handler-never-answered', {'htlcs': waiting, 'panics': pan,
                                                       'events': [list(map(str, e)) for e in st.events[-12:]]}, 'handler.wait', 'hang')

class LockDiscipline:
    """C14(a): no RPC / timer / oneshot await is started while the payments mutex is held."""
    def after_step(self, m, sc, label, new):
        for ev in new:
            if ev[0] == 'rpc_call' and 'payments' in ev[4]:
                raise Violation('rpc-under-payments-lock', {'method': ev[2], 'task': ev[3]}, 'lock.discipline', 'rpc')
            if ev[0] == 'timer_created' and 'payments' in ev[4]:
                raise Violation('timer-under-payments-lock', {'task': ev[2]}, 'lock.discipline', 'timer')
            if ev[0] == 'mpsc_send_blocked' and 'payments' in ev[3]:
                raise Violation('blocking-send-under-lock', {'task': ev[1], 'channel': ev[2]}, 'lock.discipline', 'send')
            if ev[0] == 'lock_wait' and 'payments' in ev[3] and ev[2] != 'payments':
                # waiting for another mutex while holding the payments lock: whoever holds that mutex (across an await of
                # its own, or it could not be observed held) now decides when every other hash may proceed
                raise Violation('lock-wait-under-payments-lock', {'task': ev[1], 'waits_for': ev[2], 'held_by_task': ev[4]},
                                'lock.discipline', 'nested-lock')

class NoFailWhileLive(Decisions):
    """C02: a trampoline HTLC is failed only when no part is pending/complete and no pay is running
    (once an outgoing attempt for the hash exists)."""
    def after_step(self, m, sc, label, new):
        Decisions.after_step(self, m, sc, label, new)
        st = m.st
        env = st.env
        for ev in new:
            if ev[0] != 'oneshot_send':
                continue
            key = st.roots.get('os_of', {}).get(ev[1])
            if key is None:
                continue
            v = oneshot_value(m, ev[1])
            if not resp_is(v, 'Fail'):
                continue
            attempt = bool(env.parts) or any(c.method == 'pay' and c.state != 'new' for c in env.calls)
            if not attempt:
                continue
            live = [(p.pid, p.status) for p in env.parts if p.status in ('pending', 'complete')]
            running = [c.cid for c in env.calls if c.method == 'pay' and c.state == 'called' and c.info.get('started')]
            if live or running:
                cause = 'fail-while-live'
                if env.faults_used or getattr(env, 'write_faults_used', 0):
                    last = [x for x in env.log if len(x) > 1 and x[1] in ('FAULT', 'FAULT-REJECT', 'FAULT-LOST-ACK')]
                    cause = 'rpc-fault:%s' % (last[-1][0] if last else '?')
                raise Violation('failed-while-outgoing-live', {'htlc': key[1], 'parts': live, 'running_pay': running,
                                                               'rpc_log': [list(map(str, x)) for x in env.log[-12:]]},
                                'lifecycle.resolve[fail]', cause)

class OneAttempt:
    """C05: never a pay request while an earlier attempt has pending or complete parts / a pay is running."""
    def after_step(self, m, sc, label, new):
        st = m.st
        env = st.env
        for ev in new:
            if ev[0] == 'rpc_call' and ev[2] == 'pay':
                live = [(p.pid, p.status) for p in env.parts if p.status in ('pending', 'complete')]
                running = [c.cid for c in env.calls if c.method == 'pay' and c.state == 'called' and c.cid != ev[1]]
                if live or running:
                    cause = 'second-attempt'
                    if env.faults_used or getattr(env, 'write_faults_used', 0):
                        cause = 'rpc-fault'
                    raise Violation('pay-while-attempt-live', {'parts': live, 'running_pay': running,
                                                               'rpc_log': [list(map(str, x)) for x in env.log[-12:]]}, 'lifecycle.pay', cause)

class WriteAhead:
    """C08: whenever a part is pending/complete the state record says Pending or Succeeded; Pending applied before pay;
    Free applied only when nothing is live; Succeeded holds pre(H)."""
    def record_state(self, m, h):
        env = m.st.env
        for key, ent in env.datastore.items():
            if key[-1] == 'state' and (key_hash(key) is h or key_hash(key) == h):
                tok = ent[0].tag if isinstance(ent[0], Seq) else None
                if isinstance(tok, lib_std.JsonTok) and isinstance(tok.value, Adt):
                    return tok.value.variant, tok.value
                return 'garbled', None
        return 'absent', None
    def after_step(self, m, sc, label, new):
        st = m.st
        env = st.env
        for inv in sc.cfg['invoices']:
            h = inv.hash
            live = [(p.pid, p.status) for p in env.parts if (p.hash is h or p.hash == h) and p.status in ('pending', 'complete')]
            state, val = self.record_state(m, h)
            if live and state not in ('Pending', 'Succeeded'):
                cause = 'understated'
                if env.faults_used or getattr(env, 'write_faults_used', 0):
                    cause = 'after-fault'
                raise Violation('record-understates-payment', {'record': state, 'parts': live, 'step': label,
                                                               'rpc_log': [list(map(str, x)) for x in env.log[-12:]]}, 'store.state', cause)
            if state == 'Succeeded':
                tag = getattr(val.fields[0], 'tag', None)
                if tag is None:
                    raise Violation('succeeded-without-preimage', {}, 'store.succeeded', 'preimage')
                raise_if(m, sym.ne(tag, preimage_of(h)), 'succeeded-with-foreign-preimage', {}, 'store.succeeded', 'preimage')
        for ev in new:
            if ev[0] == 'rpc_call' and ev[2] == 'pay':
                h = env.pay_hash(m, env.calls[ev[1]])
                state, val = self.record_state(m, h)
                if state != 'Pending':
                    raise Violation('pay-before-pending-record', {'record': state}, 'lifecycle.pay', 'write-ahead')


class Coverage:
    """Vacuity guard: records which interesting situations were reached at least once in a configuration."""
    def __init__(self, expect):
        self.expect = list(expect)
        self.seen = set()
    def after_step(self, m, sc, label, new):
        for ev in new:
            if ev[0] == 'rpc_call' and ev[2] == 'pay':
                self.seen.add('pay')
            elif ev[0] == 'htlc_response':
                self.seen.add('response:' + ev[2].split('(')[0])
                self.seen.add('response:' + ev[2])
            elif ev[0] == 'timer_fired':
                self.seen.add('timer')
            elif ev[0] == 'CRASH':
                self.seen.add('crash')
            elif ev[0] == 'rpc_fault' or ev[0] == 'ds_write_fault':
                self.seen.add('fault')
            elif ev[0] == 'ds_write':
                self.seen.add('ds_write')
    def missing(self):
        return [e for e in self.expect if e not in self.seen]
