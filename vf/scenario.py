"""Full-stack scenario harness: the real HtlcManager::handle_htlc + payment_lifecycle + resolve +
PaymentState + ClnDatastore + PayPaymentProvider + BlockWatcher MIR as tasks under the scheduler,
against the node model.  Properties plug in monitors."""
import copy
from . import sym
from .sym import T
from .values import Adt, Ref, Seq, Slice, Cell, Opaque, MOVED, unit
from .machine import Unsupported, Panic, last_seg
from .intrinsics import is_variant, some, none, ok, err, clone_value, deref_val
from . import lib_std, lib_bytes, lib_tokio, env_node
from .lib_std import HMap, dur, JsonTok
from .lib_tokio import TMutex, ReadyFut, sched
from .env_node import (NodeEnv, Part, Invoice, hash_value, hash_term, preimage_of, pubkey_value, boxed_future,
                       token_bytes, field, _short)
from .sched import Violation

U64 = sym.INT_TYPES['u64']
U32 = sym.INT_TYPES['u32']
U16 = sym.INT_TYPES['u16']
I64 = sym.INT_TYPES['i64']

def arc(v):
    return Adt('Arc', None, {0: Ref(Cell(v), 'v')})

def big_size(v):
    if v < 0xfd:
        return [v]
    if v <= 0xffff:
        return [0xfd] + list(v.to_bytes(2, 'big'))
    if v <= 0xffffffff:
        return [0xfe] + list(v.to_bytes(4, 'big'))
    return [0xff] + list(v.to_bytes(8, 'big'))

def tlv_record(typ, value):
    return big_size(typ) + big_size(len(value)) + list(value)

def tlv_entry(typ, value_items):
    return Adt('tlv::TlvEntry', None, {0: typ, 1: Seq(list(value_items), 'vec')}, ['typ', 'value'])

class HtlcSpec:
    """One incoming HTLC.  Every numeric field is a term (symbolic or concrete)."""
    def __init__(self, idx, **kw):
        self.idx = idx
        self.invoice = kw.get('invoice', 0)            # index into cfg.invoices, or None (no trampoline metadata)
        self.hash = kw.get('hash')                     # term: htlc.payment_hash
        self.amount = kw.get('amount')
        self.forward = kw.get('forward', 'amount')     # term | None | 'amount'
        self.total = kw.get('total', 'sum')            # term | None
        self.cltv_expiry = kw.get('cltv_expiry')
        self.cltv_rel = kw.get('cltv_rel')
        self.scid = kw.get('scid', False)
        self.tlv_amount = kw.get('tlv_amount', None)   # None | concrete bytes for record 33003
        self.extra_payload = kw.get('extra_payload', [])
        self.meta_prefix = kw.get('meta_prefix', None)  # [(type, bytes)] placed before the invoice record inside the metadata

class InvoiceSpec:
    def __init__(self, ident, hash_t, amount, sig_ok=True, hints=(), payee=None):
        self.ident = ident          # small int: identity of the invoice string
        self.hash = hash_t
        self.amount = amount        # None | term
        self.sig_ok = sig_ok
        self.hints = hints
        self.payee = payee
    def bytes(self):
        return list(b'inv%d' % self.ident)

class ScenEnv(NodeEnv):
    def __init__(self):
        NodeEnv.__init__(self)
        self.invoices = {}          # bytes -> Invoice
        self.notifications = 0
        self.crashed = 0
    def parse_invoice(self, m, s, a, b):
        if s.tag is not None:
            return None
        key = bytes(x if isinstance(x, int) else 0 for x in s.items[a:b])
        return self.invoices.get(key)
    def intercept(self, m, name, raw, args):
        r = NodeEnv.intercept(self, m, name, raw, args)
        if r is not None:
            return r
        if name.endswith('NotificationService>::notify_payment_failed'):
            self.notifications += 1
            m.event('notify_payment_failed')
            return (boxed_future(ReadyFut(unit())),)
        return None
    def pay_hash(self, m, c):
        bolt = field(m, c.args, 'bolt11')
        s, a, b = lib_std.seq_of(bolt)
        key = bytes(x if isinstance(x, int) else 0 for x in s.items[a:b])
        inv = self.invoices.get(key)
        if inv is None:
            raise Unsupported('pay for an unknown invoice %r' % (key,))
        return inv.hash.fields[0]

class Scenario:
    """Explorer harness.  cfg: dict (see defaults).  monitors: objects with optional methods
    on_init(m, sc), after_step(m, sc, label, new_events), on_response(m, sc, k, resp),
    on_quiescent(m, sc)."""
    max_polls = 400
    stop_on_first_violation = False
    max_violations = 16
    DEFAULTS = dict(
        htlcs=None, invoices=None, policy=None, cltv_delta=None, mpp_timeout_s=60, allow_self=True,
        store_init='free', max_parts=1, pay_outcomes=('complete', 'failed'), faults=0, fault_methods=(),
        fault_codes=((-1, 'Rpc'),), write_faults=0, crash=0, crash_after_pays=0, height_polls=0, probe_pairs=None, crash_shrinks_expiry=False, pay_seq=None, stale_blocks=False, real_height_update=False, crash_reduced=True, crash_needs_live_part=False, timers=True, spurious=False, xpay=False,
        height=None, blocks=0, wait_fail_codes=(204,), deliver_in_order=True, payee_releases=True,
        rng_free=True, max_total_parts=3, parts_can_fail=True, deliver_after_response=False, eager_tasks=False, strict_por=False,
    )
    def __init__(self, c, cfg, monitors=()):
        self.c = c
        self.cfg = dict(self.DEFAULTS)
        self.cfg.update(cfg)
        self.monitors = list(monitors)
    def configure(self, m):
        m.generic_bindings = {'B': 'BlockWatcher', 'P': 'PayPaymentProvider', 'S': 'ClnDatastore', 'R': 'Rpc', 'N': 'EnvNotifications'}
        m.loop_bound = 200
        m.summarize = ('fee_sufficient',)
        m.abstract_mul = True

    # ---- construction -------------------------------------------------------------------
    def init(self, m):
        cfg = self.cfg
        st = m.st
        env = ScenEnv()
        env.max_parts = cfg['max_parts']
        env.pay_seq = cfg['pay_seq']
        env.pay_outcomes = cfg['pay_outcomes']
        env.fault_budget = cfg['faults']
        env.fault_methods = cfg['fault_methods']
        env.fault_codes = cfg['fault_codes']
        env.wait_fail_codes = cfg['wait_fail_codes']
        env.payee_releases = cfg['payee_releases']
        env.parts_can_fail = cfg['parts_can_fail']
        env._max_total = cfg['max_total_parts']
        env.write_fault_budget = cfg['write_faults']
        st.env = env
        st.sched.spurious = cfg['spurious']
        st.sched.rng_free = cfg['rng_free']
        pol = cfg['policy'] or (sym.var('pol_base'), sym.var('pol_ppm'), sym.var('pol_delta'))
        for t, ty in zip(pol, (U32, U32, U16)):
            if isinstance(t, T):
                m.pc.append(sym.in_range(t, ty))
        cd = cfg['cltv_delta'] if cfg['cltv_delta'] is not None else sym.var('cltv_delta')
        if isinstance(cd, T):
            m.pc.append(sym.in_range(cd, U16))
        st.roots['policy'] = pol
        st.roots['cltv_delta'] = cd
        h0 = cfg['height'] if cfg['height'] is not None else sym.var('height0')
        if isinstance(h0, T):
            m.pc.append(sym.in_range(h0, U32))
        env.height = h0
        # invoices
        invs = cfg['invoices']
        for iv in invs:
            if isinstance(iv.amount, T):
                # BOLT11 amounts are expressed in pico-BTC in a u64: nothing above 1.8e18 msat can be written down
                m.pc.append(sym.and_(sym.le(0, iv.amount), sym.le(iv.amount, MAX_INVOICE_MSAT)))
            env.invoices[bytes(iv.bytes())] = Invoice(iv.ident, iv.hash, iv.amount, iv.sig_ok, iv.payee, iv.hints)
        st.roots['specs'] = cfg['htlcs']
        st.roots['delivered'] = []
        st.roots['responses'] = {}
        st.roots['resp_order'] = []
        st.roots['task_of'] = {}
        st.roots['ev_seen'] = 0
        st.roots['epoch'] = 0
        self.build_manager(m)
        self.init_store(m)
        for mon in self.monitors:
            if hasattr(mon, 'on_init'):
                mon.on_init(m, self)

    def build_manager(self, m):
        st = m.st
        cfg = self.cfg
        env = st.env
        pol = st.roots['policy']
        rpc = Adt('rpc::Rpc', None, {0: Seq([], 'str', tag='rpcfile')})
        hmx = TMutex(env.height, 'height')
        st.roots['height0'] = env.height
        st.roots['height_applied'] = env.height
        pmx = TMutex(HMap(), 'payments')
        st.mutexes = [x for x in st.mutexes if x.label not in ('height', 'payments')] + [hmx, pmx]
        bw = Adt('block_watcher::BlockWatcher', None, {0: arc(rpc), 1: arc(hmx)}, ['rpc', 'current_height'])
        retry = 60
        prov = Adt('payment_provider::PayPaymentProvider', None, {0: retry, 1: arc(rpc), 2: cfg['xpay']}, ['retry_for', 'rpc', 'xpay'])
        store = Adt('store::ClnDatastore', None, {0: arc(rpc)}, ['rpc'])
        policy = Adt('messages::TrampolineRoutingPolicy', None, {0: pol[0], 1: pol[1], 2: pol[2]},
                     ['fee_base_msat', 'fee_proportional_millionths', 'cltv_expiry_delta'])
        params = Adt('htlc_manager::HtlcManagerParams', None, {
            0: cfg['allow_self'], 1: arc(bw), 2: st.roots['cltv_delta'], 3: clone_value(m, env.node_id),
            4: dur(cfg['mpp_timeout_s'] * lib_std.NANOS if not isinstance(cfg['mpp_timeout_s'], T) else sym.mul(cfg['mpp_timeout_s'], lib_std.NANOS)),
            5: arc(Opaque('notification_service')), 6: arc(prov), 7: policy, 8: arc(store)},
            ['allow_self_route_hints', 'block_provider', 'cltv_delta', 'local_pubkey', 'mpp_timeout', 'notification_service',
             'payment_provider', 'routing_policy', 'store'])
        mgr = Adt('htlc_manager::HtlcManager', None, {0: arc(params), 1: arc(pmx)}, ['params', 'payments'])
        st.roots['mgr'] = mgr
        st.roots['pmx'] = pmx
        st.roots['hmx'] = hmx

    def init_store(self, m):
        """Arbitrary-but-well-formed stored history for the first invoice's hash."""
        cfg = self.cfg
        env = m.st.env
        mode = cfg['store_init']
        if mode == 'choice':
            mode = ('free', 'absent', 'pending', 'succeeded')[m.choose(4, 'store.initial')]
        m.st.roots['store_init'] = mode
        if mode in ('absent', 'free_absent'):
            return
        inv = cfg['invoices'][0]
        key = ('trampoline', 'payments', ('tok', inv.hash), 'state')
        if mode == 'free':
            if m.choose(2, 'store.free.absent?') == 0:
                return
            v = Adt('store::PersistPaymentState', 'Free', {})
            env.datastore[key] = [Seq([], 'str', tag=JsonTok(v, 'PersistPaymentState')), sym.var('gen0')]
            m.pc.append(sym.in_range(sym.var('gen0'), U32))
        elif mode == 'pending':
            at = sym.var('attempt_time0')
            m.pc.append(sym.in_range(at, U32))
            aid = Seq([], 'str', tag=('to_string', sym.var('attempt_id0')))
            v = Adt('store::PersistPaymentState', 'Pending', {0: aid, 1: at}, ['attempt_id', 'attempt_time_seconds'])
            env.datastore[key] = [Seq([], 'str', tag=JsonTok(v, 'PersistPaymentState')), sym.var('gen0')]
            m.pc.append(sym.in_range(sym.var('gen0'), U32))
            akey = ('trampoline', 'payments', ('tok', inv.hash), 'attempts', ('tok', ('to_string', sym.var('attempt_id0'))))
            if cfg.get('pending_has_attempt_record', True):
                env.datastore[akey] = [Seq([], 'str', tag='attempt-info'), 0]
            # parts of the interrupted attempt
            k = cfg.get('pending_parts', 1)
            for i in range(k):
                # with `old_parts_in_groups` every earlier part belongs to an attempt (group) of its own and all share
                # part id 1: a part is identified by (groupid, partid)
                g, pi = (1 + i, 1) if cfg.get('old_parts_in_groups') else (1, i + 1)
                p = Part(len(env.parts), inv.hash, groupid=g, partid=pi)
                p.status = ('pending', 'complete', 'failed')[m.choose(3, 'old.part%d' % i)]
                env.parts.append(p)
        elif mode == 'succeeded':
            v = Adt('store::PersistPaymentState', 'Succeeded', {0: token_bytes(preimage_of(inv.hash))}, ['preimage'])
            env.datastore[key] = [Seq([], 'str', tag=JsonTok(v, 'PersistPaymentState')), sym.var('gen0')]
            m.pc.append(sym.in_range(sym.var('gen0'), U32))
            p = Part(len(env.parts), inv.hash, groupid=1, partid=1)
            p.status = 'complete'
            env.parts.append(p)

    def request_value(self, m, spec):
        cfg = self.cfg
        entries = []
        for typ, val in spec.extra_payload:
            entries.append(tlv_entry(typ, val))
        if spec.invoice is not None:
            inv = cfg['invoices'][spec.invoice]
            meta = []
            for typ, val in getattr(spec, 'meta_prefix', None) or []:      # records placed before the invoice record
                meta += tlv_record(typ, val)
            meta += tlv_record(33001, inv.bytes())
            if spec.tlv_amount is not None:
                meta += tlv_record(33003, spec.tlv_amount)
            entries.append(tlv_entry(16, meta))
        payload = Adt('tlv::SerializedTlvStream', None, {0: Seq(entries, 'vec')}, ['entries'])
        fwd = spec.forward
        if fwd == 'amount':
            fwd = spec.amount
        onion = Adt('messages::Onion', None, {
            0: payload, 1: some(Opaque('ShortChannelId')) if spec.scid else none(),
            2: none() if fwd is None else some(fwd), 3: none() if spec.total is None else some(spec.total)},
            ['payload', 'short_channel_id', 'forward_msat', 'total_msat'])
        htlc = Adt('messages::Htlc', None, {
            0: Opaque('ShortChannelId'), 1: spec.idx, 2: spec.amount, 3: spec.cltv_expiry, 4: spec.cltv_rel,
            5: token_bytes(spec.hash)}, ['short_channel_id', 'id', 'amount_msat', 'cltv_expiry', 'cltv_expiry_relative', 'payment_hash'])
        return Adt('messages::HtlcAcceptedRequest', None, {0: onion, 1: htlc}, ['onion', 'htlc'])

    # ---- transitions --------------------------------------------------------------------
    def env_transitions(self, m):
        st = m.st
        cfg = self.cfg
        out = []
        specs = st.roots['specs']
        pending = [s for s in specs if s.idx not in st.roots['delivered']]
        if pending and cfg['deliver_after_response']:
            ep = st.roots['epoch']
            if any((ep, k) not in st.roots.get('decided', {}) and (ep, k) not in st.roots['responses']
                   for k in st.roots['delivered'] if (ep, k) in st.roots.get('reqs', {})):
                pending = []
        if pending:
            cands = pending[:1] if cfg['deliver_in_order'] else pending
            for s in cands:
                out.append(('deliver htlc%d' % s.idx, self._deliver(s.idx)))
        out.extend(st.env.transitions(m))
        if cfg['timers']:
            for t in st.timers:
                if t.polled and not t.fired and not t.dropped:
                    out.append(('fire ' + t.label, self._fire(t.label)))
        if cfg['blocks'] and st.roots.get('blocks_done', 0) < cfg['blocks']:
            out.append(('block arrives', self._block))
        if cfg['height_polls'] and st.roots.get('height_polls_done', 0) < cfg['height_polls']:
            out.append(('height poll', self._height_poll))
        if cfg['crash'] and st.env.crashed < cfg['crash'] and st.roots['delivered'] and (st.roots.get('crash_ok') or not cfg['crash_reduced']) and \
                len([c for c in st.env.calls if c.method == 'pay']) >= cfg['crash_after_pays'] and \
                (not cfg['crash_needs_live_part'] or any(p.status == 'pending' for p in st.env.parts)):
            out.append(('CRASH', self._crash))
        return out

    def _deliver(self, k):
        def f(m):
            st = m.st
            spec = [s for s in st.roots['specs'] if s.idx == k][0]
            req = self.request_value(m, spec)
            body = self.c.body('HtlcManager::handle_htlc')
            cell = Cell(req)
            st.roots.setdefault('reqs', {})[(st.roots['epoch'], k)] = cell
            fut = m.call_body(body, [Ref(Cell(st.roots['mgr']), 'v'), Ref(cell, 'v')])
            t = st.sched.new_task('htlc%d' % k, fut)
            st.roots['delivered'].append(k)
            st.roots['task_of'][t.tid] = k
            m.event('htlc_delivered', k, st.roots['epoch'])
        return f

    def _fire(self, label):
        def f(m):
            for t in m.st.timers:
                if t.label == label:
                    t.fired = True
                    m.event('timer_fired', label)
                    m.st.sched.wake(t.waiters)
        return f

    def _block(self, m):
        """A height reaches the plugin.  Default: a new tip, applied atomically (update_height itself is C20).
        With `real_height_update` the crate's own update_height runs as a task on the shared height mutex, and with
        `stale_blocks` the height told may also be an old one (late poll answer, re-org notification): the highest
        height the plugin has finished processing is tracked in roots['height_applied'] for the oracle."""
        st = m.st
        cfg = self.cfg
        st.roots['blocks_done'] = st.roots.get('blocks_done', 0) + 1
        nh = m.fresh('height')
        stale = cfg['stale_blocks'] and m.choose(2, 'block.stale?') == 1
        if stale:
            m.pc.append(sym.and_(sym.ge(nh, 0), sym.le(nh, st.env.height)))
        else:
            m.pc.append(sym.and_(sym.gt(nh, st.env.height), sym.in_range(nh, U32)))
            st.env.height = nh
        st.roots.setdefault('block_heights', []).append(nh)
        hmx = st.roots['hmx']
        if cfg['real_height_update']:
            body = self.c.body('update_height')
            fut = m.call_body(body, [nh, arc(hmx)])
            t = st.sched.new_task('blk%d' % st.roots['blocks_done'], fut)
            st.roots.setdefault('blk_tasks', {})[t.tid] = nh
        elif not stale:
            hmx.cell.v = nh
            st.roots['height_applied'] = nh
        m.event('block', nh)

    def _height_poll(self, m):
        """The block watcher's periodic poll: the crate's own poll_height runs as a task (getinfo through the node model,
        answered whenever the environment chooses -- or never, within the run)."""
        st = m.st
        st.roots['height_polls_done'] = st.roots.get('height_polls_done', 0) + 1
        rpc = Adt('rpc::Rpc', None, {0: Seq([], 'str', tag='rpcfile')})
        body = self.c.body('poll_height')
        fut = m.call_body(body, [arc(st.roots['hmx']), arc(rpc)])
        st.sched.new_task('hpoll%d' % st.roots['height_polls_done'], fut)
        m.event('height_poll')

    def _crash(self, m):
        """Whole-node crash + restart: all plugin tasks and the payments table vanish; the node model
        (datastore, parts) survives; running pay commands end; undelivered HTLCs are replayed."""
        st = m.st
        env = st.env
        env.crashed += 1
        st.roots['epoch'] += 1
        m.event('CRASH', st.roots['epoch'])
        for t in st.sched.tasks:
            if t.status in ('runnable', 'blocked'):
                t.status = 'killed'
                t.root.v = MOVED
        for c in env.calls:
            if c.state in ('new', 'called'):
                if c.method == 'pay' and c.info.get('started'):
                    c.info['returned'] = 'crash'
                c.state = 'dead'
        for mx in st.mutexes:
            mx.locked_by = None
            mx.waiters = set()
        st.timers = []
        self.build_manager(m)
        # HTLCs whose response had not been handed back are replayed by the node
        answered = set(k for (ep, k) in st.roots['responses'] if ep < st.roots['epoch'])
        st.roots['delivered'] = [k for k in st.roots['delivered'] if k in answered]
        if self.cfg['crash_shrinks_expiry'] and m.choose(2, 'replayed htlcs: relative expiry now below the policy delta?') == 1:
            # blocks were mined while the plugin was down: the replayed HTLCs now trip the relative-expiry check
            import copy as _copy
            specs = []
            for sp in st.roots['specs']:
                if sp.idx not in answered:
                    sp = _copy.copy(sp)
                    sp.cltv_rel = 10
                specs.append(sp)
            st.roots['specs'] = specs
            m.event('replay_with_low_expiry')

    # ---- partial-order reduction ---------------------------------------------------------------
    def enabled_filter(self, m, trs):
        """Persistent sets (sound reductions, see DESIGN 3.4):
         * delivering an HTLC only adds a runnable task, so it is done eagerly (any schedule with a late
           delivery equals one with an early delivery and a late first poll) -- not when crashes are explored,
           where delivered-before / after the crash differ;
         * the linearisation of an RPC touches only node state; it is independent of every task poll, timer
           and delivery, so when one is enabled only it and the transitions that do touch node state (part
           resolutions, pay progress, other linearisations, crash) are explored."""
        cfg = self.cfg
        if cfg['eager_tasks']:
            # run-to-blocking: every runnable task is polled before the environment moves again.  Environment steps
            # commute with polls of tasks other than the one they wake, and a woken task reads the node only through
            # RPC answers fixed at their linearisation, so no answer sequence is lost (DESIGN 3.4).
            tasks = [t for t in trs if t[0] == 'task']
            if tasks:
                return tasks
        if not cfg['crash'] and not cfg['deliver_after_response']:
            dl = [t for t in trs if t[2].startswith('deliver ')]
            if dl:
                return dl[:1]
        lins = [t for t in trs if t[2].startswith('lin ')]
        if lins:
            # only sound while a single task issues RPCs: with two live lifecycles the other one can reach a
            # conflicting RPC (same datastore key) without this linearisation having happened
            st = m.st
            live = [t for t in st.sched.tasks if t.name.startswith('{') and t.status in ('runnable', 'blocked')]
            # a further lifecycle can still come into being when the table has no entry (the previous one resolved)
            # and some handler has not registered yet or some HTLC is still to be delivered
            table_empty = not st.roots['pmx'].cell.v.entries
            fresh_handlers = [t for t in st.sched.tasks if t.tid in st.roots['task_of'] and t.polls == 0]
            undelivered = [s for s in st.roots['specs'] if s.idx not in st.roots['delivered']]
            may_spawn = cfg['strict_por'] and table_empty and (fresh_handlers or undelivered)
            if len(live) <= 1 and not may_spawn:
                dep = [t for t in trs if t[0] == 'env' and (t[2].startswith(('lin ', 'part', 'pay#', 'CRASH')))]
                return dep
        return trs

    # ---- independence relation for sleep sets -------------------------------------------------------
    _DS = ('datastore', 'listdatastore')
    _SP = ('listsendpays', 'waitsendpay', 'pay')
    def _classify(self, m, label):
        """(kind, owner task, resource, is_write)"""
        import re as _re
        mm = _re.match(r'^lin (\w+)#(\d+)$', label)
        env = m.st.env
        if mm:
            c = env.calls[int(mm.group(2))]
            meth = mm.group(1)
            res = 'ds' if meth in self._DS else ('sendpays' if meth in self._SP else 'other')
            return ('lin', c.task, res, meth == 'datastore')
        mm = _re.match(r'^pay#(\d+) ', label)
        if mm:
            return ('lin', env.calls[int(mm.group(1))].task, 'sendpays', True)
        if label.startswith('part'):
            return ('part', None, 'sendpays', True)
        mm = _re.match(r'^poll .*#(\d+)$', label)
        if mm:
            return ('poll', int(mm.group(1)), 'table', True)
        if label.startswith('fire '):
            for t in m.st.timers:
                if t.label == label[5:]:
                    return ('fire', t.created_by, 'timer', True)
            return ('fire', None, 'timer', True)
        if label.startswith('deliver '):
            return ('deliver', None, 'deliver', True)
        return ('other', None, 'all', True)
    def independent(self, m, a, b):
        """Conservative: True only when executing a and b in either order provably yields the same state."""
        if a == b:
            return False
        ka, kb = self._classify(m, a), self._classify(m, b)
        if 'other' in (ka[0], kb[0]) or 'deliver' in (ka[0], kb[0]):
            return False
        for x, y in ((ka, kb), (kb, ka)):
            if x[0] == 'poll':
                if y[0] == 'poll':
                    return False
                # a poll depends on environment steps that complete / wake its own task
                return y[1] is not None and y[1] != x[1] and y[0] in ('lin', 'fire')
        # two environment steps
        if ka[0] == 'fire' or kb[0] == 'fire':
            return True
        if ka[2] != kb[2]:
            return True
        if ka[2] == 'ds':
            return not (ka[3] or kb[3])
        return False

    def is_terminal(self, m):
        for mon in self.monitors:
            if hasattr(mon, 'is_terminal') and not mon.is_terminal(m, self):
                return False
        return any(hasattr(mon, 'is_terminal') for mon in self.monitors)

    # ---- bookkeeping + monitors ------------------------------------------------------------
    def after_step(self, m, label):
        st = m.st
        # responses handed back in this step (bookkeeping first, so that the events are part of `new`)
        finished = []
        for t in st.sched.tasks:
            k = st.roots['task_of'].get(t.tid)
            if k is None:
                continue
            key = (st.roots['epoch'], k)
            if t.status == 'done' and ('seen', t.tid) not in st.roots:
                st.roots[('seen', t.tid)] = True
                resp = t.result
                st.roots['responses'][key] = resp
                st.roots['resp_order'].append(key)
                m.event('htlc_response', k, _resp_kind(resp))
                finished.append((k, resp))
        new = st.events[st.roots['ev_seen']:]
        st.roots['ev_seen'] = len(st.events)
        # crash-point reduction (DESIGN 3.4): a crash loses everything inside the plugin, so what follows it depends only
        # on the node's state (datastore, parts, height) and on which HTLCs were answered.  A crash is therefore offered
        # only at the first environment choice after a step that changed one of those; a crash anywhere else equals the
        # crash at the latest such point (calls in flight at a crash never land in this model either way).
        for tid, nh in list(st.roots.get('blk_tasks', {}).items()):
            if st.sched.tasks[tid].status == 'done':
                del st.roots['blk_tasks'][tid]
                cur = st.roots.get('height_applied', st.roots['height0'])
                st.roots['height_applied'] = sym.ite(sym.gt(nh, cur), nh, cur)
        if self.cfg['crash']:
            if label.startswith(('lin datastore#', 'pay#', 'part', 'block arrives')) or finished:
                st.roots['crash_ok'] = True
            elif not label.startswith('poll '):
                st.roots['crash_ok'] = False
        for ev in new:
            if ev[0] == 'oneshot_new':
                k = st.roots['task_of'].get(ev[2])
                if k is not None:
                    st.roots.setdefault('os_of', {})[ev[1]] = (st.roots['epoch'], k)
            elif ev[0] == 'oneshot_send':
                key = st.roots.get('os_of', {}).get(ev[1])
                if key is not None:
                    st.roots.setdefault('decided', {})[key] = len(st.events)
                    for mon in self.monitors:
                        if hasattr(mon, 'on_decided'):
                            mon.on_decided(m, self, key[1], ev)
        for k, resp in finished:
            for mon in self.monitors:
                if hasattr(mon, 'on_response'):
                    mon.on_response(m, self, k, resp)
        for mon in self.monitors:
            if hasattr(mon, 'after_step'):
                mon.after_step(m, self, label, new)

    def on_task_panic(self, m, task, exc):
        for mon in self.monitors:
            if hasattr(mon, 'on_task_panic'):
                mon.on_task_panic(m, self, task, exc)

    def on_quiescent(self, m):
        for mon in self.monitors:
            if hasattr(mon, 'on_quiescent'):
                mon.on_quiescent(m, self)

def _resp_kind(resp):
    if not isinstance(resp, Adt):
        return repr(resp)
    if resp.variant == 'Fail':
        v = resp.fields[0]
        return 'Fail(%s)' % (bytes(x for x in v.items if isinstance(x, int))[:2].hex() if isinstance(v, Seq) else '?')
    if resp.variant == 'Resolve':
        v = resp.fields[0]
        return 'Resolve(%s)' % (_short(v.tag) if isinstance(v, Seq) and v.tag is not None else '?')
    if resp.variant == 'Continue':
        return 'Continue(%s)' % ('payload' if is_variant(resp.fields[0], 'Some') else 'none')
    return resp.variant

def resp_is(resp, variant):
    return isinstance(resp, Adt) and resp.variant == variant

def fail_code(resp):
    """(b0, b1) of a Fail response's failure_message, or None."""
    if not resp_is(resp, 'Fail'):
        return None
    v = resp.fields[0]
    if isinstance(v, Seq) and len(v.items) >= 2:
        return (v.items[0], v.items[1])
    return None

# patch the env bound on total parts
def _max_total_parts(self):
    return getattr(self, '_max_total', 3)
NodeEnv.max_total_parts = _max_total_parts

def held_htlcs(m, sc):
    """Indices of HTLCs delivered in the current epoch and not yet answered."""
    st = m.st
    ep = st.roots['epoch']
    return [k for k in st.roots['delivered'] if (ep, k) not in st.roots['responses']]

def registered_htlcs(m, hash_t=None):
    """HTLC indices whose listeners are registered in the payments table right now (optionally for one hash)."""
    st = m.st
    hm = st.roots['pmx'].cell.v
    out = []
    os_of = st.roots.get('os_of', {})
    for k, cell in hm.entries:
        if hash_t is not None and not (hash_term(k) is hash_t or hash_term(k) == hash_t):
            if m.feasible(sym.eq(hash_term(k), hash_t)) is False:
                continue
        ps = cell.v
        for tx in ps.fields[0].items:
            key = os_of.get(tx.ch.label)
            if key is not None:
                out.append(key[1])
    return out

def table_entry(m, hash_t):
    hm = m.st.roots['pmx'].cell.v
    for k, cell in hm.entries:
        if hash_term(k) is hash_t or hash_term(k) == hash_t:
            return cell.v
    return None

def live_parts(env, h=None):
    return [p for p in env.parts if p.status in ('pending', 'complete')]

def running_pays(env):
    return [c for c in env.calls if c.method == 'pay' and c.state == 'called']

# ---- datastore write faults (rejected / applied but reported failed) -----------------------
def _write_fault(self, m, c):
    budget = getattr(self, 'write_fault_budget', 0)
    used = getattr(self, 'write_faults_used', 0)
    if used >= budget:
        return None
    k = m.choose(3, 'write-fault?')
    if k == 0:
        return None
    self.write_faults_used = used + 1
    return 'reject' if k == 1 else 'lost-ack'
ScenEnv.write_fault = _write_fault

MAX_INVOICE_MSAT = 1800000000000000000
MAX_MSAT = 21 * 10 ** 6 * 10 ** 8 * 1000      # total supply in msat: bound on a single HTLC's amount

def std_htlcs(m_pc, n, inv_hash, same_hash=True, prefix='h'):
    """n HTLC specs with fully symbolic numeric fields (amounts bounded by the money supply)."""
    out = []
    for i in range(n):
        a = sym.var('%s%d_amount' % (prefix, i))
        f = sym.var('%s%d_forward' % (prefix, i))
        t = sym.var('%s%d_total' % (prefix, i))
        ce = sym.var('%s%d_cltv' % (prefix, i))
        cr = sym.var('%s%d_cltv_rel' % (prefix, i))
        m_pc.extend([sym.and_(sym.le(0, a), sym.le(a, MAX_MSAT)), sym.in_range(f, U64), sym.in_range(t, U64),
                     sym.in_range(ce, U32), sym.in_range(cr, I64)])
        out.append(HtlcSpec(i, invoice=0, hash=inv_hash, amount=a, forward=f, total=t, cltv_expiry=ce, cltv_rel=cr))
    return out
