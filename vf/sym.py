"""Symbolic terms (own, picklable, hash-consed) and the solver front end.

Scalars are Python ints/bools when concrete and `T` terms when symbolic.  Terms
are sorted ('I' mathematical integer, 'B' boolean).  Machine integers are
modelled as mathematical integers kept inside their type's range with explicit
wrap-around (see wrap_*).  z3 decides; cvc5/z3-cli re-decide exported queries.
"""
import time
import z3

class T:
    __slots__ = ('op', 'args', 'sort', '_h')
    def __init__(self, op, args, sort):
        self.op = op
        self.args = args
        self.sort = sort
        self._h = hash((op, args, sort))
    def __hash__(self):
        return self._h
    def __eq__(self, o):
        return self is o or (isinstance(o, T) and self._h == o._h and self.op == o.op
                             and self.sort == o.sort and self.args == o.args)
    def __ne__(self, o):
        return not self.__eq__(o)
    def __repr__(self):
        return show(self)
    def __deepcopy__(self, memo):
        return self
    def __bool__(self):
        raise TypeError('symbolic term used as a Python bool: %s' % show(self))
    def __reduce__(self):
        return (T, (self.op, self.args, self.sort))

def show(t, depth=0):
    if not isinstance(t, T):
        return str(t)
    if t.op == 'var':
        return t.args[0]
    if depth > 6:
        return '...'
    if t.op == 'uf':
        return '%s(%s)' % (t.args[0], ', '.join(show(a, depth + 1) for a in t.args[1:]))
    if len(t.args) == 2 and t.op in ('+', '-', '*', '<', '<=', '==', 'and', 'or', 'div', 'mod'):
        return '(%s %s %s)' % (show(t.args[0], depth + 1), t.op, show(t.args[1], depth + 1))
    return '%s(%s)' % (t.op, ', '.join(show(a, depth + 1) for a in t.args))

def is_sym(x):
    return isinstance(x, T)

_counter = [0]

def var(name, sort='I'):
    return T('var', (name,), sort)

def fresh(prefix, sort='I'):
    _counter[0] += 1
    return T('var', ('%s!%d' % (prefix, _counter[0]),), sort)

def uf(name, sort, *args):
    if all(not isinstance(a, T) for a in args) and False:
        pass
    return T('uf', (name,) + tuple(args), sort)

# ---- integer constructors -------------------------------------------------
def add(a, b):
    if not isinstance(a, T) and not isinstance(b, T):
        return a + b
    if not isinstance(a, T) and a == 0:
        return b
    if not isinstance(b, T) and b == 0:
        return a
    return T('+', (a, b), 'I')

def sub(a, b):
    if not isinstance(a, T) and not isinstance(b, T):
        return a - b
    if not isinstance(b, T) and b == 0:
        return a
    if isinstance(a, T) and isinstance(b, T) and a == b:
        return 0
    return T('-', (a, b), 'I')

def mul(a, b):
    if not isinstance(a, T) and not isinstance(b, T):
        return a * b
    for x, y in ((a, b), (b, a)):
        if not isinstance(x, T):
            if x == 0:
                return 0
            if x == 1:
                return y
    return T('*', (a, b), 'I')

def div(a, b):
    """Euclidean/floor division for b > 0 (callers guarantee sign handling)."""
    if not isinstance(a, T) and not isinstance(b, T):
        return a // b
    if not isinstance(b, T) and b == 1:
        return a
    return T('div', (a, b), 'I')

def mod(a, b):
    if not isinstance(a, T) and not isinstance(b, T):
        return a % b
    return T('mod', (a, b), 'I')

def ite(c, a, b):
    if not isinstance(c, T):
        return a if c else b
    if not isinstance(a, T) and not isinstance(b, T) and a == b and type(a) == type(b):
        return a
    if isinstance(a, T) and isinstance(b, T) and a == b:
        return a
    sort = a.sort if isinstance(a, T) else (b.sort if isinstance(b, T) else ('B' if isinstance(a, bool) else 'I'))
    return T('ite', (c, a, b), sort)

# ---- comparisons ----------------------------------------------------------
def lt(a, b):
    if not isinstance(a, T) and not isinstance(b, T):
        return a < b
    return T('<', (a, b), 'B')

def le(a, b):
    if not isinstance(a, T) and not isinstance(b, T):
        return a <= b
    if isinstance(a, T) and isinstance(b, T) and a == b:
        return True
    return T('<=', (a, b), 'B')

def gt(a, b):
    return lt(b, a)

def ge(a, b):
    return le(b, a)

def eq(a, b):
    if not isinstance(a, T) and not isinstance(b, T):
        return a == b
    if isinstance(a, T) and isinstance(b, T) and a == b:
        return True
    if isinstance(a, bool):
        return b if a else not_(b)
    if isinstance(b, bool):
        return a if b else not_(a)
    return T('==', (a, b), 'B')

def ne(a, b):
    return not_(eq(a, b))

# ---- booleans -------------------------------------------------------------
def not_(a):
    if not isinstance(a, T):
        return not a
    if a.op == 'not':
        return a.args[0]
    return T('not', (a,), 'B')

def and_(*xs):
    out = []
    for x in xs:
        if not isinstance(x, T):
            if not x:
                return False
            continue
        if x.op == 'and':
            out.extend(x.args)
        else:
            out.append(x)
    if not out:
        return True
    if len(out) == 1:
        return out[0]
    return T('and', tuple(out), 'B')

def or_(*xs):
    out = []
    for x in xs:
        if not isinstance(x, T):
            if x:
                return True
            continue
        if x.op == 'or':
            out.extend(x.args)
        else:
            out.append(x)
    if not out:
        return False
    if len(out) == 1:
        return out[0]
    return T('or', tuple(out), 'B')

def implies(a, b):
    return or_(not_(a), b)

# ---- machine integer types -----------------------------------------------
class IntTy:
    __slots__ = ('name', 'bits', 'signed', 'lo', 'hi', 'mod')
    def __init__(self, name, bits, signed):
        self.name = name
        self.bits = bits
        self.signed = signed
        self.mod = 1 << bits
        if signed:
            self.lo = -(1 << (bits - 1))
            self.hi = (1 << (bits - 1)) - 1
        else:
            self.lo = 0
            self.hi = self.mod - 1
    def __repr__(self):
        return self.name

INT_TYPES = {}
for _n, _b, _s in (('u8', 8, False), ('u16', 16, False), ('u32', 32, False), ('u64', 64, False),
                   ('u128', 128, False), ('usize', 64, False), ('i8', 8, True), ('i16', 16, True),
                   ('i32', 32, True), ('i64', 64, True), ('i128', 128, True), ('isize', 64, True)):
    INT_TYPES[_n] = IntTy(_n, _b, _s)

def in_range(x, ty):
    return and_(le(ty.lo, x), le(x, ty.hi))

def wrap(x, ty, span=None):
    """Reduce an exact integer result into ty's range (two's complement wrap).
    span: None (arbitrary), or 1 if x is known to lie within one modulus of the range
    (add/sub of two in-range values) so that an ite suffices."""
    if not isinstance(x, T):
        r = x % ty.mod
        if ty.signed and r > ty.hi:
            r -= ty.mod
        return r
    if span == 1:
        return ite(gt(x, ty.hi), sub(x, ty.mod), ite(lt(x, ty.lo), add(x, ty.mod), x))
    if ty.signed:
        r = mod(sub(x, ty.lo), ty.mod)
        return add(r, ty.lo)
    return mod(x, ty.mod)

def out_of_range(x, ty):
    return or_(lt(x, ty.lo), gt(x, ty.hi))

# ---- translation to z3 -----------------------------------------------------
class Z3Ctx:
    def __init__(self):
        self.memo = {}
        self.ufs = {}
        self.vars = {}
    def tr(self, t):
        if isinstance(t, bool):
            return z3.BoolVal(t)
        if isinstance(t, int):
            return z3.IntVal(t)
        r = self.memo.get(t)
        if r is not None:
            return r
        op = t.op
        if op == 'var':
            r = z3.Int(t.args[0]) if t.sort == 'I' else z3.Bool(t.args[0])
            self.vars[t.args[0]] = (t, r)
        elif op == 'uf':
            name = t.args[0]
            args = [self.tr(a) for a in t.args[1:]]
            f = self.ufs.get(name)
            if f is None:
                sorts = [a.sort() for a in args] + [z3.IntSort() if t.sort == 'I' else z3.BoolSort()]
                f = z3.Function(name, *sorts)
                self.ufs[name] = f
            r = f(*args)
        else:
            a = [self.tr(x) for x in t.args]
            if op == '+':
                r = a[0] + a[1]
            elif op == '-':
                r = a[0] - a[1]
            elif op == '*':
                r = a[0] * a[1]
            elif op == 'div':
                r = a[0] / a[1]
            elif op == 'mod':
                r = a[0] % a[1]
            elif op == 'ite':
                r = z3.If(a[0], a[1], a[2])
            elif op == '<':
                r = a[0] < a[1]
            elif op == '<=':
                r = a[0] <= a[1]
            elif op == '==':
                r = a[0] == a[1]
            elif op == 'not':
                r = z3.Not(a[0])
            elif op == 'and':
                r = z3.And(*a)
            elif op == 'or':
                r = z3.Or(*a)
            else:
                raise ValueError('unknown term op ' + op)
        self.memo[t] = r
        return r

def to_smt2(assertions, logic='ALL'):
    """SMT-LIB2 text for a list of bool terms (for cross-checking with other solvers)."""
    ctx = Z3Ctx()
    s = z3.Solver()
    for a in assertions:
        s.add(ctx.tr(a))
    return '(set-logic %s)\n' % logic + s.to_smt2().replace('(set-info :status unknown)\n', '')

class SolverStats:
    def __init__(self):
        self.queries = 0
        self.cache_hits = 0
        self.time = 0.0
        self.unknown = 0

class Unknown(Exception):
    pass

class Solver:
    """Incremental z3 front end with a prefix-sharing assertion stack and a query cache."""
    def __init__(self, timeout_ms=20000):
        self.ctx = Z3Ctx()
        self.s = z3.Solver()
        self.s.set('timeout', timeout_ms)
        self.stack = []          # terms currently pushed (one push level each)
        self.cache = {}
        self.stats = SolverStats()
    def _sync(self, pc):
        k = 0
        n = min(len(pc), len(self.stack))
        while k < n and self.stack[k] is pc[k]:
            k += 1
        while k < n and self.stack[k] == pc[k]:
            k += 1
        for _ in range(len(self.stack) - k):
            self.s.pop()
        del self.stack[k:]
        for t in pc[k:]:
            self.s.push()
            self.s.add(self.ctx.tr(t))
            self.stack.append(t)
    def check(self, pc, extra=True):
        """'sat' | 'unsat' for  /\ pc /\ extra ; raises Unknown."""
        if extra is False:
            return 'unsat'
        key = (tuple(pc), extra)
        r = self.cache.get(key)
        if r is not None:
            self.stats.cache_hits += 1
            return r
        t0 = time.time()
        self._sync(pc)
        self.s.push()
        if extra is not True:
            self.s.add(self.ctx.tr(extra))
        res = self.s.check()
        self.s.pop()
        self.stats.queries += 1
        self.stats.time += time.time() - t0
        if res == z3.sat:
            r = 'sat'
        elif res == z3.unsat:
            r = 'unsat'
        else:
            self.stats.unknown += 1
            raise Unknown('solver returned unknown: %s' % self.s.reason_unknown())
        self.cache[key] = r
        return r
    def model(self, pc, extra=True, want=None):
        """A model as {var name: python value} for /\ pc /\ extra, or None if unsat."""
        t0 = time.time()
        self._sync(pc)
        self.s.push()
        if extra is not True:
            self.s.add(self.ctx.tr(extra))
        res = self.s.check()
        out = None
        if res == z3.sat:
            m = self.s.model()
            out = {}
            for name, (t, zv) in self.ctx.vars.items():
                v = m.eval(zv, model_completion=True)
                if t.sort == 'I':
                    out[name] = v.as_long()
                else:
                    out[name] = z3.is_true(v)
        self.s.pop()
        self.stats.queries += 1
        self.stats.time += time.time() - t0
        if res == z3.unknown:
            raise Unknown('solver returned unknown (model)')
        return out

def evaluate(t, model):
    """Evaluate a term under a {name: value} model (python semantics; div/mod floor)."""
    if not isinstance(t, T):
        return t
    op = t.op
    if op == 'var':
        return model[t.args[0]]
    a = [evaluate(x, model) for x in (t.args[1:] if op == 'uf' else t.args)]
    if op == '+':
        return a[0] + a[1]
    if op == '-':
        return a[0] - a[1]
    if op == '*':
        return a[0] * a[1]
    if op == 'div':
        return a[0] // a[1]
    if op == 'mod':
        return a[0] % a[1]
    if op == 'ite':
        return a[1] if a[0] else a[2]
    if op == '<':
        return a[0] < a[1]
    if op == '<=':
        return a[0] <= a[1]
    if op == '==':
        return a[0] == a[1]
    if op == 'not':
        return not a[0]
    if op == 'and':
        return all(a)
    if op == 'or':
        return any(a)
    raise ValueError('evaluate: ' + op)


def exact_mul(t, memo=None):
    """Rewrite uf('mul', a, b) back into the real product (used to confirm a counterexample found
    under the product abstraction)."""
    if not isinstance(t, T):
        return t
    if memo is None:
        memo = {}
    r = memo.get(t)
    if r is not None:
        return r
    if t.op == 'var':
        r = t
    elif t.op == 'uf' and t.args[0] == 'mul':
        r = T('*', (exact_mul(t.args[1], memo), exact_mul(t.args[2], memo)), 'I')
    elif t.op == 'uf':
        r = T('uf', (t.args[0],) + tuple(exact_mul(a, memo) for a in t.args[1:]), t.sort)
    else:
        r = T(t.op, tuple(exact_mul(a, memo) for a in t.args), t.sort)
    memo[t] = r
    return r
