"""std contracts: Vec / slices / String / iterators / time / fmt (pinned toolchain's std)."""
import re
from . import sym
from .sym import T
from .values import Adt, Ref, Seq, Slice, Cell, FnItem, Opaque, MOVED, UNINIT, unit, copy_value
from .machine import (Unsupported, Panic, Infeasible, BoundExceeded, make_box, box_ref, str_slice,
                      type_head, last_seg, _SliceRef)
from .intrinsics import (I, some, none, ok, err, tuple_, deref_val, clone_value, is_variant)

# ----------------------------------------------------------------------------
# helpers
# ----------------------------------------------------------------------------
def seq_of(v):
    """(Seq, start, end) behind a Vec value, &Vec, &[T], &mut [T], array ref, String..."""
    if isinstance(v, Ref):
        if isinstance(v, _SliceRef):
            v = v.slice
        else:
            v = v.get()
    if isinstance(v, Adt) and v.ty in ('Box',):
        v = box_ref(v).get()
    if isinstance(v, Slice):
        return v.seq, v.start, v.end
    if isinstance(v, Seq):
        return v, 0, len(v.items)
    hook = getattr(v, 'as_seq', None)
    if hook is not None:
        return hook()
    raise Unsupported('expected a sequence, got %r' % (v,))

def elems_of(v):
    s, a, b = seq_of(v)
    return s.items[a:b]

def vec_target(r):
    """The Seq behind `&mut Vec<T>`."""
    v = r.get() if isinstance(r, Ref) else r
    if not isinstance(v, Seq):
        raise Unsupported('expected Vec, got %r' % (v,))
    return v

# ----------------------------------------------------------------------------
# Vec
# ----------------------------------------------------------------------------
@I.rx(r'^(std::vec::)?Vec::new$|^<(std::vec::)?Vec as Default>::default$')
def _vec_new(m, args, ci):
    return Seq([], 'vec')

@I.rx(r'^(std::vec::)?Vec::with_capacity$|^(std::string::)?String::with_capacity$')
def _vec_with_capacity(m, args, ci):
    """Panics with "capacity overflow" when capacity * size_of::<T>() exceeds isize::MAX; size_of::<T>() >= 1 is all that
    is used here (zero-sized element types do not occur in the crate), so the modelled panic condition is a subset of
    the real one.  Allocation failure (abort) for large but representable sizes is not modelled."""
    n = args[0] if args else 0
    if isinstance(n, T):
        if m.branch(sym.gt(n, 2 ** 63 - 1), 'with_capacity.overflow'):
            raise Panic('capacity overflow')
    elif n > 2 ** 63 - 1:
        raise Panic('capacity overflow')
    return Seq([], 'str' if 'String' in ci.name else 'vec')

@I.add('std::boxed::box_assume_init_into_vec_unsafe', 'alloc::boxed::box_assume_init_into_vec_unsafe')
def _box_into_vec(m, args, ci):
    v = box_ref(args[0]).get()
    while isinstance(v, Adt) and v.ty == '?':
        ks = sorted(v.fields.keys())
        v = v.fields[ks[-1]]
    if not isinstance(v, Seq):
        raise Unsupported('box_assume_init_into_vec_unsafe on %r' % (v,))
    return Seq(v.items, 'vec')

@I.rx(r'^(std::slice::)?<impl \[.*\]>::into_vec$')
def _into_vec(m, args, ci):
    v = box_ref(args[0]).get() if isinstance(args[0], Adt) else args[0]
    return Seq(elems_of(v), 'vec')

@I.rx(r'^(std::vec::)?Vec::push$')
def _vec_push(m, args, ci):
    vec_target(args[0]).items.append(args[1])
    return unit()

@I.rx(r'^(std::vec::)?Vec::pop$')
def _vec_pop(m, args, ci):
    s = vec_target(args[0])
    if not s.items:
        return none()
    return some(s.items.pop())

@I.rx(r'^(std::vec::)?Vec::(len)$|^(core::slice::|std::slice::)?<impl \[.*\]>::len$')
def _vec_len(m, args, ci):
    s, a, b = seq_of(args[0])
    return b - a

@I.rx(r'^(std::vec::)?Vec::is_empty$|^(core::slice::|std::slice::)?<impl \[.*\]>::is_empty$')
def _vec_is_empty(m, args, ci):
    s, a, b = seq_of(args[0])
    return b - a == 0

@I.rx(r'^(std::string::|alloc::string::)?String::(is_empty|len)$|^(core::str::|std::str::)?<impl str>::(is_empty|len)$|^str::(is_empty|len)$')
def _str_len(m, args, ci):
    """Concrete strings: their length.  Abstract strings (contents stand for a tag): the length is an uninterpreted
    function of the tag, >= 0 -- so emptiness is a solver decision, consistent for one tag."""
    s, a, b = seq_of(args[0])
    want_len = ci.name.endswith('len')
    if s.tag is None or s.items:
        return (b - a) if want_len else (b - a == 0)
    t = s.tag if isinstance(s.tag, T) else sym.var('strtag!' + repr(s.tag))
    ln = sym.uf('strlen', 'I', t)
    m.pc.append(sym.ge(ln, 0))
    return ln if want_len else sym.eq(ln, 0)

@I.rx(r'^(std::vec::)?Vec::remove$')
def _vec_remove(m, args, ci):
    s = vec_target(args[0])
    i = args[1]
    if isinstance(i, T):
        i = m.concretize(i, 0, len(s.items), 'Vec::remove')
    if i >= len(s.items):
        raise Panic('removal index (is %d) should be < len (is %d)' % (i, len(s.items)))
    return s.items.pop(i)

@I.rx(r'^(std::vec::)?Vec::swap_remove$')
def _vec_swap_remove(m, args, ci):
    s = vec_target(args[0])
    i = args[1]
    if isinstance(i, T):
        i = m.concretize(i, 0, len(s.items), 'Vec::swap_remove')
    if i >= len(s.items):
        raise Panic('swap_remove index (is %d) should be < len (is %d)' % (i, len(s.items)))
    last = s.items.pop()
    if i < len(s.items):
        old = s.items[i]
        s.items[i] = last
        return old
    return last

@I.rx(r'^(std::vec::)?Vec::insert$')
def _vec_insert(m, args, ci):
    s = vec_target(args[0])
    i = args[1]
    if isinstance(i, T):
        i = m.concretize(i, 0, len(s.items), 'Vec::insert')
    if i > len(s.items):
        raise Panic('insertion index out of bounds')
    s.items.insert(i, args[2])
    return unit()

@I.rx(r'^(std::vec::)?Vec::(truncate)$')
def _vec_truncate(m, args, ci):
    s = vec_target(args[0])
    n = args[1]
    if isinstance(n, T):
        n = m.concretize(n, 0, len(s.items), 'Vec::truncate')
    for x in s.items[n:]:
        m.drop_value(x)
    del s.items[n:]
    return unit()

@I.rx(r'^(std::vec::)?Vec::clear$')
def _vec_clear(m, args, ci):
    s = vec_target(args[0])
    for x in s.items:
        m.drop_value(x)
    del s.items[:]
    return unit()

@I.rx(r'^(std::vec::)?Vec::extend_from_slice$')
def _vec_extend_from_slice(m, args, ci):
    s = vec_target(args[0])
    s.items.extend(clone_value(m, x) for x in elems_of(args[1]))
    return unit()

@I.rx(r'^(std::vec::)?Vec::(reserve|reserve_exact|shrink_to_fit)$')
def _vec_reserve(m, args, ci):
    return unit()

@I.rx(r'^(std::vec::)?Vec::(as_slice|as_mut_slice)$|^<(std::vec::)?Vec as (Deref|DerefMut|AsRef|Borrow)>::(deref|deref_mut|as_ref|borrow)$')
def _vec_as_slice(m, args, ci):
    s, a, b = seq_of(args[0])
    return Slice(s, a, b)

@I.rx(r'^(std::vec::)?Vec::first$|^(core::slice::|std::slice::)?<impl \[.*\]>::first$')
def _first(m, args, ci):
    s, a, b = seq_of(args[0])
    return some(Ref(s, a)) if b > a else none()

@I.rx(r'^(std::vec::)?Vec::last$|^(core::slice::|std::slice::)?<impl \[.*\]>::last$')
def _last(m, args, ci):
    s, a, b = seq_of(args[0])
    return some(Ref(s, b - 1)) if b > a else none()

@I.rx(r'^(core::slice::|std::slice::)?<impl \[.*\]>::get$')
def _slice_get(m, args, ci):
    s, a, b = seq_of(args[0])
    i = args[1]
    if isinstance(i, T):
        i = m.concretize(i, 0, b - a, 'slice::get')
    return some(Ref(s, a + i)) if 0 <= i < b - a else none()

@I.rx(r'^(core::slice::|std::slice::)?<impl \[.*\]>::to_vec$|^(std::slice::)?<impl \[.*\]>::to_owned$|^<\[.*\] as ToOwned>::to_owned$')
def _to_vec(m, args, ci):
    return Seq([clone_value(m, x) for x in elems_of(args[0])], 'vec')

@I.rx(r'^(core::slice::|std::slice::)?<impl \[.*\]>::copy_from_slice$')
def _copy_from_slice(m, args, ci):
    s, a, b = seq_of(args[0])
    src = elems_of(args[1])
    if len(src) != b - a:
        raise Panic('source slice length (%d) does not match destination slice length (%d)' % (len(src), b - a))
    for k, x in enumerate(src):
        s.items[a + k] = x
    return unit()

@I.rx(r'^(core::slice::|std::slice::)?<impl \[.*\]>::(iter|iter_mut)$|^(std::vec::)?Vec::(iter|iter_mut)$')
def _slice_iter(m, args, ci):
    s, a, b = seq_of(args[0])
    return SliceIter(s, a, b, by_ref=True)

@I.rx(r'^(core::slice::|std::slice::)?<impl \[.*\]>::(contains)$')
def _slice_contains(m, args, ci):
    xs = elems_of(args[0])
    needle = deref_val(args[1])
    for x in xs:
        if m.branch(value_eq(m, x, needle), 'contains'):
            return True
    return False

@I.rx(r'^(core::slice::|std::slice::)?<impl \[.*\]>::(split_at|split_at_mut)$')
def _split_at(m, args, ci):
    s, a, b = seq_of(args[0])
    k = args[1]
    if isinstance(k, T):
        k = m.concretize(k, 0, b - a + 1, 'split_at')
    if k > b - a:
        raise Panic('mid > len')
    return tuple_(Slice(s, a, a + k), Slice(s, a + k, b))

# --- Index / range indexing ---------------------------------------------------
def _range_bounds(m, rng, n):
    """Concrete (start, end) for a Range* value against length n; panics like std."""
    ty = last_seg(rng.ty) if isinstance(rng, Adt) else ''
    def conc(x, what):
        if isinstance(x, T):
            return m.concretize(x, 0, n + 1, what)
        return x
    if ty == 'RangeFull':
        return 0, n
    if ty == 'Range':
        lo, hi = conc(rng.fields[0], 'range.start'), conc(rng.fields[1], 'range.end')
    elif ty == 'RangeFrom':
        lo, hi = conc(rng.fields[0], 'range.start'), n
    elif ty == 'RangeTo':
        lo, hi = 0, conc(rng.fields[0], 'range.end')
    elif ty == 'RangeInclusive':
        lo, hi = conc(rng.fields[0], 'range.start'), conc(rng.fields[1], 'range.end') + 1
    elif ty == 'RangeToInclusive':
        lo, hi = 0, conc(rng.fields[0], 'range.end') + 1
    else:
        raise Unsupported('range type %r' % (rng,))
    if lo > hi:
        raise Panic('slice index starts at %d but ends at %d' % (lo, hi))
    if hi > n:
        raise Panic('range end index %d out of range for slice of length %d' % (hi, n))
    return lo, hi

@I.rx(r'^<(std::vec::Vec|Vec|\[.*\]|std::string::String|String|str|bytes::Bytes|Bytes|bytes::BytesMut|BytesMut) as (std::ops::)?(Index|IndexMut)>::(index|index_mut)$')
def _index(m, args, ci):
    s, a, b = seq_of(args[0])
    idx = args[1]
    if isinstance(idx, Adt):
        lo, hi = _range_bounds(m, idx, b - a)
        return Slice(s, a + lo, a + hi)
    if isinstance(idx, T):
        idx = m.concretize(idx, 0, b - a, 'index')
    if idx >= b - a:
        raise Panic('index out of bounds: the len is %d but the index is %d' % (b - a, idx))
    return Ref(s, a + idx)

@I.rx(r'^(core::slice::index::|std::slice::)?<impl (Index|IndexMut)<.*> for \[T\]>::(index|index_mut)$')
def _index2(m, args, ci):
    return _index(m, args, ci)

# ----------------------------------------------------------------------------
# equality of values (derive(PartialEq) semantics for plain data)
# ----------------------------------------------------------------------------
def value_eq(m, a, b):
    """Symbolic/concrete equality of two plain-data values (bool or term)."""
    a = deref_val(a) if isinstance(a, Ref) else a
    b = deref_val(b) if isinstance(b, Ref) else b
    hook = getattr(a, 'eq_hook', None)
    if hook is not None:
        return hook(m, b)
    if isinstance(a, (Seq, Slice)) or isinstance(b, (Seq, Slice)):
        xa, xb = elems_of(a), elems_of(b)
        ta = a.seq.tag if isinstance(a, Slice) else getattr(a, 'tag', None)
        tb = b.seq.tag if isinstance(b, Slice) else getattr(b, 'tag', None)
        if ta is not None or tb is not None:
            if ta is not None and tb is not None:
                return sym.eq(ta, tb) if (isinstance(ta, (T, int)) and isinstance(tb, (T, int))) else (ta == tb)
            raise Unsupported('comparing token string with concrete bytes')
        if len(xa) != len(xb):
            return False
        return sym.and_(*[value_eq(m, x, y) for x, y in zip(xa, xb)])
    if isinstance(a, Adt) and isinstance(b, Adt):
        if a.variant != b.variant:
            return False
        if set(a.fields) != set(b.fields):
            raise Unsupported('eq on differently shaped aggregates %r %r' % (a, b))
        return sym.and_(*[value_eq(m, a.fields[k], b.fields[k]) for k in a.fields])
    if isinstance(a, (int, bool, T)) and isinstance(b, (int, bool, T)):
        return sym.eq(a, b)
    if isinstance(a, Opaque) and isinstance(b, Opaque):
        return a.what == b.what and a.payload == b.payload
    raise Unsupported('value_eq on %r and %r' % (a, b))

@I.rx(r'^<.* as PartialEq>::(eq|ne)$')
def _partial_eq(m, args, ci):
    b = m.prog.resolve_fn(ci.raw)
    if b is not None:
        r = m.call_body(b, args)
        return r
    if ci.name.endswith('::ne'):
        # default method: !eq; use the crate's (derived) eq when there is one
        b = m.prog.resolve_fn(ci.raw[:-2] + 'eq')
        if b is not None:
            return sym.not_(m.call_body(b, args))
    try:
        r = value_eq(m, args[0], args[1])
    except Unsupported as e:
        raise Unsupported('%s; operands %r vs %r' % (e, deref_val(args[0]), deref_val(args[1])))
    return r if ci.name.endswith('::eq') else sym.not_(r)

@I.rx(r'^(core|std)::cmp::impls::<impl PartialEq<&B> for &A>::(eq|ne)$')
def _ref_eq(m, args, ci):
    a = deref_val(args[0])
    b = deref_val(args[1])
    # &A == &B compares pointees; dispatch on crate impls when the pointee is a crate type
    if isinstance(a, Adt):
        for cand in ('<%s as PartialEq>::eq' % last_seg(a.ty),):
            body = m.prog.keys.get(cand)
            if body is not None:
                r = m.call_body(body, [args[0].get() if isinstance(args[0].get(), Ref) else args[0],
                                       args[1].get() if isinstance(args[1].get(), Ref) else args[1]])
                return r if ci.name.endswith('::eq') else sym.not_(r)
    r = value_eq(m, a, b)
    return r if ci.name.endswith('::eq') else sym.not_(r)

# ----------------------------------------------------------------------------
# iterators
# ----------------------------------------------------------------------------
class IterBase:
    def next(self, m):
        raise NotImplementedError

class SliceIter(IterBase):
    def __init__(self, seq, a, b, by_ref=True, owned=False):
        self.seq = seq
        self.i = a
        self.b = b
        self.by_ref = by_ref
    def next(self, m):
        if self.i >= self.b:
            return None
        k = self.i
        self.i += 1
        return Ref(self.seq, k) if self.by_ref else self.seq.items[k]
    def next_back(self, m):
        if self.i >= self.b:
            return None
        self.b -= 1
        return Ref(self.seq, self.b) if self.by_ref else self.seq.items[self.b]
    def remaining(self):
        return self.b - self.i

class Zip(IterBase):
    def __init__(self, a, b):
        self.a = a
        self.b = b
    def next(self, m):
        x = self.a.next(m)
        if x is None:
            return None
        y = self.b.next(m)
        if y is None:
            return None
        return tuple_(x, y)

class Skip(IterBase):
    def __init__(self, a, n):
        self.a = a
        self.n = n
    def next(self, m):
        while self.n > 0:
            self.n -= 1
            if self.a.next(m) is None:
                return None
        return self.a.next(m)

class TakeIt(IterBase):
    def __init__(self, a, n):
        self.a = a
        self.n = n
    def next(self, m):
        if self.n <= 0:
            return None
        self.n -= 1
        return self.a.next(m)

class MapIt(IterBase):
    def __init__(self, a, f):
        self.a = a
        self.f = f
    def next(self, m):
        x = self.a.next(m)
        if x is None:
            return None
        return m.call_closure(Ref(Cell(self.f), 'v'), [x])

class FilterMap(IterBase):
    def __init__(self, a, f):
        self.a = a
        self.f = f
    def next(self, m):
        while True:
            x = self.a.next(m)
            if x is None:
                return None
            r = m.call_closure(Ref(Cell(self.f), 'v'), [x])
            if is_variant(r, 'Some'):
                return r.fields[0]

class Filter(IterBase):
    def __init__(self, a, f):
        self.a = a
        self.f = f
    def next(self, m):
        while True:
            x = self.a.next(m)
            if x is None:
                return None
            r = m.call_closure(Ref(Cell(self.f), 'v'), [Ref(Cell(x), 'v')])
            if m.branch(r, 'filter'):
                return x

class Enumerate(IterBase):
    def __init__(self, a):
        self.a = a
        self.k = 0
    def next(self, m):
        x = self.a.next(m)
        if x is None:
            return None
        k = self.k
        self.k += 1
        return tuple_(k, x)

class Cloned(IterBase):
    def __init__(self, a):
        self.a = a
    def next(self, m):
        x = self.a.next(m)
        if x is None:
            return None
        return clone_value(m, deref_val(x))

class Rev(IterBase):
    def __init__(self, a):
        self.a = a
    def next(self, m):
        return self.a.next_back(m)

class RangeIt(IterBase):
    def __init__(self, lo, hi):
        self.lo = lo
        self.hi = hi
    def next(self, m):
        if isinstance(self.lo, T) or isinstance(self.hi, T):
            if not m.branch(sym.lt(self.lo, self.hi), 'range.next'):
                return None
        elif self.lo >= self.hi:
            return None
        v = self.lo
        self.lo = sym.add(self.lo, 1)
        return v

def as_iter(m, v):
    if isinstance(v, Ref):
        t = v.get()
        if isinstance(t, IterBase):
            return t
        if isinstance(t, Adt) and last_seg(t.ty) == 'Range':
            return _RangeRef(t)
        v = t
    if isinstance(v, IterBase):
        return v
    if isinstance(v, Adt) and last_seg(v.ty) == 'Range':
        return _RangeRef(v)
    raise Unsupported('not an iterator: %r' % (v,))

class _RangeRef(IterBase):
    """Iterator view over a Range aggregate stored in a MIR local (mutated in place)."""
    def __init__(self, adt):
        self.adt = adt
    def next(self, m):
        lo, hi = self.adt.fields[0], self.adt.fields[1]
        if isinstance(lo, T) or isinstance(hi, T):
            if not m.branch(sym.lt(lo, hi), 'range.next'):
                return None
        elif lo >= hi:
            return None
        self.adt.fields[0] = sym.add(lo, 1)
        return lo

@I.rx(r'^<.* as IntoIterator>::into_iter$')
def _into_iter(m, args, ci):
    v = args[0]
    if isinstance(v, IterBase):
        return v
    if isinstance(v, Seq):
        return SliceIter(v, 0, len(v.items), by_ref=False)
    if isinstance(v, (Ref, Slice)):
        t = v.get() if isinstance(v, Ref) and not isinstance(v, _SliceRef) else v
        if isinstance(t, IterBase):
            return t
        s, a, b = seq_of(v)
        return SliceIter(s, a, b, by_ref=True)
    if isinstance(v, Adt) and last_seg(v.ty) in ('Range',):
        return v
    hook = getattr(v, 'into_iter', None)
    if hook is not None:
        return hook(m)
    raise Unsupported('into_iter of %r' % (v,))

def _it_arg(m, args):
    return as_iter(m, args[0])

@I.rx(r'^<.* as (Iterator|DoubleEndedIterator|ExactSizeIterator)>::(\w+)$|^(std|core)::iter::Iterator::(\w+)$')
def _iterator(m, args, ci):
    meth = ci.name.rsplit('::', 1)[1]
    if meth == 'next':
        it = _it_arg(m, args)
        x = it.next(m)
        return none() if x is None else some(x)
    if meth == 'next_back':
        it = _it_arg(m, args)
        x = it.next_back(m)
        return none() if x is None else some(x)
    if meth == 'zip':
        other = args[1]
        if not isinstance(other, IterBase):
            other = _into_iter(m, [other], ci)
        return Zip(as_iter(m, args[0]), other)
    if meth == 'skip':
        n = args[1]
        if isinstance(n, T):
            n = m.concretize(n, 0, 64, 'skip')
        return Skip(as_iter(m, args[0]), n)
    if meth == 'take':
        n = args[1]
        if isinstance(n, T):
            n = m.concretize(n, 0, 64, 'take')
        return TakeIt(as_iter(m, args[0]), n)
    if meth == 'map':
        return MapIt(as_iter(m, args[0]), args[1])
    if meth == 'filter_map':
        return FilterMap(as_iter(m, args[0]), args[1])
    if meth == 'filter':
        return Filter(as_iter(m, args[0]), args[1])
    if meth == 'enumerate':
        return Enumerate(as_iter(m, args[0]))
    if meth in ('cloned', 'copied'):
        return Cloned(as_iter(m, args[0]))
    if meth == 'rev':
        return Rev(as_iter(m, args[0]))
    if meth == 'by_ref':
        return args[0]
    if meth == 'position':
        it = _it_arg(m, args)
        k = 0
        while True:
            x = it.next(m)
            if x is None:
                return none()
            r = m.call_closure(Ref(Cell(args[1]), 'v'), [x])
            if m.branch(r, 'position'):
                return some(k)
            k += 1
    if meth == 'find':
        it = _it_arg(m, args)
        while True:
            x = it.next(m)
            if x is None:
                return none()
            r = m.call_closure(Ref(Cell(args[1]), 'v'), [Ref(Cell(x), 'v')])
            if m.branch(r, 'find'):
                return some(x)
    if meth == 'find_map':
        it = _it_arg(m, args)
        while True:
            x = it.next(m)
            if x is None:
                return none()
            r = m.call_closure(Ref(Cell(args[1]), 'v'), [x])
            if is_variant(r, 'Some'):
                return r
    if meth in ('any', 'all'):
        it = _it_arg(m, args)
        while True:
            x = it.next(m)
            if x is None:
                return meth == 'all'
            r = m.call_closure(Ref(Cell(args[1]), 'v'), [x])
            if m.branch(r, meth):
                if meth == 'any':
                    return True
            elif meth == 'all':
                return False
    if meth == 'nth':
        it = _it_arg(m, args)
        n = args[1]
        if isinstance(n, T):
            n = m.concretize(n, 0, 64, 'nth')
        x = None
        for _ in range(n + 1):
            x = it.next(m)
            if x is None:
                return none()
        return some(x)
    if meth == 'last':
        it = _it_arg(m, args)
        last = None
        while True:
            x = it.next(m)
            if x is None:
                break
            last = x
        return none() if last is None else some(last)
    if meth == 'count':
        it = _it_arg(m, args)
        k = 0
        while it.next(m) is not None:
            k += 1
        return k
    if meth == 'len':
        it = _it_arg(m, args)
        return it.remaining()
    if meth == 'collect':
        it = _it_arg(m, args)
        out = []
        while True:
            x = it.next(m)
            if x is None:
                break
            out.append(x)
        dty = ci.dest_type(m) or ''
        if 'FuturesUnordered' in dty:
            # FromIterator for FuturesUnordered = new() followed by push in iteration order
            from .lib_tokio import FuturesUnordered
            fu = FuturesUnordered()
            fu.items = [Cell(x) for x in out]
            return fu
        kind = 'str' if 'String' in type_head(dty) else 'vec'
        return Seq(out, kind)
    if meth == 'for_each':
        it = _it_arg(m, args)
        while True:
            x = it.next(m)
            if x is None:
                return unit()
            m.call_closure(Ref(Cell(args[1]), 'v'), [x])
    if meth == 'fold':
        it = _it_arg(m, args)
        acc = args[1]
        while True:
            x = it.next(m)
            if x is None:
                return acc
            acc = m.call_closure(Ref(Cell(args[2]), 'v'), [acc, x])
    if meth == 'sum':
        it = _it_arg(m, args)
        acc = 0
        while True:
            x = it.next(m)
            if x is None:
                return acc
            acc = sym.add(acc, deref_val(x))
    if meth == 'size_hint':
        raise Unsupported('size_hint')
    raise Unsupported('Iterator::' + meth)

# ----------------------------------------------------------------------------
# closures: Fn* traits
# ----------------------------------------------------------------------------
@I.rx(r'^<.* as (FnOnce|FnMut|Fn)>::(call_once|call_mut|call)$')
def _fn_call(m, args, ci):
    f = args[0]
    tup = args[1]
    xs = [tup.fields[k] for k in sorted(tup.fields)] if isinstance(tup, Adt) else []
    if isinstance(f, Ref):
        tgt = f.get()
        if isinstance(tgt, FnItem):
            f = tgt
    if isinstance(f, FnItem):
        return m.invoke(f.name, xs)
    return m.call_closure(f, xs)

# ----------------------------------------------------------------------------
# String / str
# ----------------------------------------------------------------------------
@I.rx(r'^(std::string::)?String::new$')
def _string_new(m, args, ci):
    return Seq([], 'str')

@I.rx(r'^<(std::string::)?String as From>::from$|^<str as ToString>::to_string$|^<str as ToOwned>::to_owned$|^<&str as Into>::into$|^(core::str::|std::str::)?<impl str>::(to_string|to_owned)$')
def _string_from_str(m, args, ci):
    s, a, b = seq_of(args[0])
    return Seq(s.items[a:b], 'str', s.tag)

@I.rx(r'^(std::string::)?String::(as_str|as_bytes|as_mut_str)$|^<(std::string::)?String as (Deref|AsRef|Borrow)>::(deref|as_ref|borrow)$|^(core::str::|std::str::)?<impl str>::as_bytes$|^<&?str as AsRef>::as_ref$|^<&?\[u8\] as AsRef>::as_ref$|^<(std::vec::)?Vec as AsRef>::as_ref$')
def _as_slice(m, args, ci):
    v = args[0]
    if isinstance(v, Ref) and isinstance(v.get(), Slice):
        return v.get()
    s, a, b = seq_of(v)
    return Slice(s, a, b)

@I.rx(r'^(std::string::)?String::(len)$|^(core::str::|std::str::)?<impl str>::len$')
def _str_len(m, args, ci):
    s, a, b = seq_of(args[0])
    if s.tag is not None:
        raise Unsupported('length of a token string')
    return b - a

@I.rx(r'^(std::string::)?String::into_bytes$')
def _into_bytes(m, args, ci):
    return Seq(args[0].items, 'vec', args[0].tag)

@I.rx(r'^(std::string::)?String::push_str$')
def _push_str(m, args, ci):
    vec_target(args[0]).items.extend(elems_of(args[1]))
    return unit()

def utf8_valid(m, xs):
    """Exact UTF-8 well-formedness over a list of (possibly symbolic) bytes, as a bool term.
    Decided structurally: the machine forks on each lead byte class."""
    i = 0
    n = len(xs)
    while i < n:
        b = xs[i]
        if m.branch(sym.le(b, 0x7f), 'utf8.ascii'):
            i += 1
            continue
        def cont(k, lo=0x80, hi=0xbf):
            if k >= n:
                return False
            return m.branch(sym.and_(sym.le(lo, xs[k]), sym.le(xs[k], hi)), 'utf8.cont')
        if m.branch(sym.and_(sym.le(0xc2, b), sym.le(b, 0xdf)), 'utf8.2'):
            if not cont(i + 1):
                return False
            i += 2
            continue
        if m.branch(sym.eq(b, 0xe0), 'utf8.e0'):
            if not (cont(i + 1, 0xa0, 0xbf) and cont(i + 2)):
                return False
            i += 3
            continue
        if m.branch(sym.eq(b, 0xed), 'utf8.ed'):
            if not (cont(i + 1, 0x80, 0x9f) and cont(i + 2)):
                return False
            i += 3
            continue
        if m.branch(sym.and_(sym.le(0xe1, b), sym.le(b, 0xef)), 'utf8.3'):
            if not (cont(i + 1) and cont(i + 2)):
                return False
            i += 3
            continue
        if m.branch(sym.eq(b, 0xf0), 'utf8.f0'):
            if not (cont(i + 1, 0x90, 0xbf) and cont(i + 2) and cont(i + 3)):
                return False
            i += 4
            continue
        if m.branch(sym.eq(b, 0xf4), 'utf8.f4'):
            if not (cont(i + 1, 0x80, 0x8f) and cont(i + 2) and cont(i + 3)):
                return False
            i += 4
            continue
        if m.branch(sym.and_(sym.le(0xf1, b), sym.le(b, 0xf3)), 'utf8.4'):
            if not (cont(i + 1) and cont(i + 2) and cont(i + 3)):
                return False
            i += 4
            continue
        return False
    return True

@I.rx(r'(^|::)from_utf8$')
def _from_utf8(m, args, ci):
    s, a, b = seq_of(args[0])
    if s.tag is not None:
        # token byte strings: validity is an attribute of the token decided by the harness
        okv = m.env.token_utf8(m, s.tag) if m.env is not None and hasattr(m.env, 'token_utf8') else True
        if m.branch(okv, 'from_utf8(token)'):
            return ok(Slice(s, a, b))
        return err(Opaque('Utf8Error'))
    if utf8_valid(m, s.items[a:b]):
        return ok(Slice(s, a, b))
    return err(Opaque('Utf8Error'))

@I.rx(r'^(std::string::)?String::from_utf8$')
def _string_from_utf8(m, args, ci):
    v = args[0]
    if v.tag is not None or utf8_valid(m, v.items):
        return ok(Seq(v.items, 'str', v.tag))
    return err(Opaque('FromUtf8Error'))

# ----------------------------------------------------------------------------
# fmt / anyhow / errors  (opaque)
# ----------------------------------------------------------------------------
@I.rx(r'(^|::)Arguments::(new_const|new_v1|new_v1_formatted|new|from_str|from_str_nonconst|as_str)$')
def _fmt_args(m, args, ci):
    if ci.name.endswith('as_str'):
        return none()
    return Opaque('fmt::Arguments', None)

@I.rx(r'(^|::)Argument::(new_display|new_debug|new_lower_hex|new_upper_hex|new)$')
def _fmt_arg(m, args, ci):
    return Opaque('fmt::Argument', None)

@I.rx(r'^(std|alloc)::fmt::format$|^(std|alloc)::fmt::format::format_inner$|^std::fmt::format$')
def _fmt_format(m, args, ci):
    return Seq([], 'str', tag=('fmt', m.steps))

@I.rx(r'^<.* as ToString>::to_string$')
def _to_string(m, args, ci):
    v = deref_val(args[0])
    if isinstance(v, (Seq, Slice)):
        s, a, b = seq_of(v)
        return Seq(s.items[a:b], 'str', s.tag)
    return Seq([], 'str', tag=('to_string', repr_token(v)))

def repr_token(v):
    if isinstance(v, (int, bool, T)):
        return v
    return repr(v)[:80]

@I.rx(r'^(anyhow::__private::)?(format_err|must_use)$|^anyhow::Error::msg$|^anyhow::error::<impl anyhow::Error>::(msg|new)$|^anyhow::Error::(new|from)$|^anyhow::error::<impl From<E> for anyhow::Error>::from$|^<anyhow::Error as From<.*>>::from$')
def _anyhow_new(m, args, ci):
    if ci.name.endswith('must_use'):
        return args[0]
    if args and isinstance(args[0], Opaque) and args[0].what == 'anyhow':
        return args[0]
    return Opaque('anyhow', args[0] if args else None)

@I.rx(r'^anyhow::__private::kind::(Adhoc|Trait|Boxed)\w*::new$|^<.* as anyhow::__private::kind::\w+Kind>::anyhow_kind$|^anyhow::kind::\w+::new$|^<.* as anyhow::kind::\w+Kind>::anyhow_kind$')
def _anyhow_kind(m, args, ci):
    if ci.name.endswith('anyhow_kind'):
        return Opaque('anyhow_kind')
    return Opaque('anyhow', args[1] if len(args) > 1 else None)

@I.rx(r'^<(std::result::)?Result as (anyhow::)?Context>::(context|with_context)$|^<(std::option::)?Option as (anyhow::)?Context>::(context|with_context)$')
def _anyhow_context(m, args, ci):
    v = args[0]
    if isinstance(v, Adt) and v.variant == 'Ok':
        return v
    if isinstance(v, Adt) and v.variant == 'Some':
        return ok(v.fields[0])
    if isinstance(v, Adt) and v.variant == 'None':
        return err(Opaque('anyhow', 'context: none'))
    return err(Opaque('anyhow', ('context', v.fields[0])))

# ----------------------------------------------------------------------------
# Default / Duration / SystemTime
# ----------------------------------------------------------------------------
NANOS = 1000000000

def dur(ns):
    """Duration as total nanoseconds (mathematical integer, 0 <= ns < 2^64 * 10^9)."""
    return Adt('std::time::Duration', None, {0: ns})

def dur_ns(v):
    v = deref_val(v) if isinstance(v, Ref) else v
    if isinstance(v, Adt) and last_seg(v.ty) == 'Duration':
        return v.fields[0]
    raise Unsupported('expected Duration, got %r' % (v,))

@I.rx(r'(^|::)Duration::(from_secs|from_millis|from_micros|from_nanos)$')
def _dur_from(m, args, ci):
    k = {'from_secs': NANOS, 'from_millis': 1000000, 'from_micros': 1000, 'from_nanos': 1}[ci.name.rsplit('::', 1)[1]]
    return dur(sym.mul(args[0], k))

@I.rx(r'(^|::)Duration::new$')
def _dur_new(m, args, ci):
    return dur(sym.add(sym.mul(args[0], NANOS), args[1]))

@I.rx(r'(^|::)Duration::(as_secs|as_millis|as_micros|as_nanos|subsec_nanos|subsec_millis)$')
def _dur_as(m, args, ci):
    ns = dur_ns(args[0])
    meth = ci.name.rsplit('::', 1)[1]
    if meth == 'as_nanos':
        return ns
    k = {'as_secs': NANOS, 'as_millis': 1000000, 'as_micros': 1000}.get(meth)
    if k is None:
        raise Unsupported(ci.name)
    return m.divrem('Div', ns, k, None)

@I.rx(r'(^|::)Duration::saturating_sub$')
def _dur_sat_sub(m, args, ci):
    a, b = dur_ns(args[0]), dur_ns(args[1])
    return dur(sym.ite(sym.lt(a, b), 0, sym.sub(a, b)))

@I.rx(r'(^|::)Duration::saturating_add$')
def _dur_sat_add(m, args, ci):
    a, b = dur_ns(args[0]), dur_ns(args[1])
    mx = (2 ** 64 - 1) * NANOS + 999999999
    s = sym.add(a, b)
    return dur(sym.ite(sym.gt(s, mx), mx, s))

@I.rx(r'(^|::)Duration::checked_sub$')
def _dur_checked_sub(m, args, ci):
    a, b = dur_ns(args[0]), dur_ns(args[1])
    if m.branch(sym.lt(a, b), 'Duration::checked_sub'):
        return none()
    return some(dur(sym.sub(a, b)))

@I.rx(r'(^|::)Duration::is_zero$')
def _dur_is_zero(m, args, ci):
    return sym.eq(dur_ns(args[0]), 0)

@I.rx(r'^<((std|core)::time::)?Duration as (PartialOrd|Ord|PartialEq)>::(lt|le|gt|ge|eq|ne)$')
def _dur_cmp(m, args, ci):
    a, b = dur_ns(args[0]), dur_ns(args[1])
    f = {'lt': sym.lt, 'le': sym.le, 'gt': sym.gt, 'ge': sym.ge, 'eq': sym.eq, 'ne': sym.ne}[ci.name[-2:]]
    return f(a, b)

DUR_MAX = (2 ** 64 - 1) * NANOS + 999999999
SYSTIME_MAX = (2 ** 63 - 1) * NANOS + 999999999       # i64 seconds on this platform

@I.rx(r'^<((std|core)::time::)?Duration as (std::ops::|core::ops::)?(Add|Sub)>::(add|sub)$')
def _dur_addsub(m, args, ci):
    a, b = dur_ns(args[0]), dur_ns(args[1])
    if ci.name.endswith('add'):
        r = sym.add(a, b)
        if m.branch(sym.gt(r, DUR_MAX), 'Duration::add.overflow'):
            raise Panic('overflow when adding durations')
        return dur(r)
    if m.branch(sym.lt(a, b), 'Duration::sub.overflow'):
        raise Panic('overflow when subtracting durations')
    return dur(sym.sub(a, b))

@I.rx(r'(^|::)Duration::checked_add$')
def _dur_checked_add(m, args, ci):
    a, b = dur_ns(args[0]), dur_ns(args[1])
    r = sym.add(a, b)
    if m.branch(sym.gt(r, DUR_MAX), 'Duration::checked_add'):
        return none()
    return some(dur(r))

@I.const_rx(r'(^|::)Duration::(ZERO|MAX)$')
def _dur_consts(m, raw, name):
    return dur(0 if name.endswith('ZERO') else DUR_MAX)

@I.rx(r'^<((std|core)::time::)?SystemTime as (std::ops::|core::ops::)?(Add|Sub)>::(add|sub)$')
def _systime_addsub(m, args, ci):
    a = deref_val(args[0]) if isinstance(args[0], Ref) else args[0]
    an, d = a.fields[0], dur_ns(args[1])
    if ci.name.endswith('add'):
        r = sym.add(an, d)
        if m.branch(sym.gt(r, SYSTIME_MAX), 'SystemTime::add.overflow'):
            raise Panic('overflow when adding duration to instant')
    else:
        r = sym.sub(an, d)
        if m.branch(sym.lt(r, -(2 ** 63) * NANOS), 'SystemTime::sub.overflow'):
            raise Panic('overflow when subtracting duration from instant')
    return Adt('std::time::SystemTime', None, {0: r})

@I.rx(r'(^|::)SystemTime::(checked_add|checked_sub)$')
def _systime_checked(m, args, ci):
    a = deref_val(args[0]) if isinstance(args[0], Ref) else args[0]
    an, d = a.fields[0], dur_ns(args[1])
    if ci.name.endswith('checked_add'):
        r = sym.add(an, d)
        if m.branch(sym.gt(r, SYSTIME_MAX), 'SystemTime::checked_add'):
            return none()
    else:
        r = sym.sub(an, d)
        if m.branch(sym.lt(r, -(2 ** 63) * NANOS), 'SystemTime::checked_sub'):
            return none()
    return some(Adt('std::time::SystemTime', None, {0: r}))

@I.rx(r'(^|::)SystemTime::elapsed$')
def _systime_elapsed(m, args, ci):
    a = deref_val(args[0]) if isinstance(args[0], Ref) else args[0]
    now = m.env.now_ns(m)
    if m.branch(sym.lt(now, a.fields[0]), 'SystemTime::elapsed'):
        return err(Opaque('SystemTimeError'))
    return ok(dur(sym.sub(now, a.fields[0])))

@I.rx(r'^<((std|core)::time::)?SystemTime as (PartialOrd|Ord|PartialEq)>::(lt|le|gt|ge|eq|ne)$')
def _systime_cmp(m, args, ci):
    a = deref_val(args[0]) if isinstance(args[0], Ref) else args[0]
    b = deref_val(args[1]) if isinstance(args[1], Ref) else args[1]
    f = {'lt': sym.lt, 'le': sym.le, 'gt': sym.gt, 'ge': sym.ge, 'eq': sym.eq, 'ne': sym.ne}[ci.name[-2:]]
    return f(a.fields[0], b.fields[0])

@I.rx(r'(^|::)SystemTime::now$')
def _systime_now(m, args, ci):
    if m.env is None or not hasattr(m.env, 'now_ns'):
        raise Unsupported('SystemTime::now without an environment clock')
    return Adt('std::time::SystemTime', None, {0: m.env.now_ns(m)})

@I.rx(r'(^|::)SystemTime::duration_since$')
def _systime_since(m, args, ci):
    a = deref_val(args[0])
    b = deref_val(args[1]) if not isinstance(args[1], Adt) else args[1]
    an, bn = a.fields[0], b.fields[0]
    if m.branch(sym.lt(an, bn), 'duration_since'):
        return err(Opaque('SystemTimeError'))
    return ok(dur(sym.sub(an, bn)))

@I.const_rx(r'(^|::)UNIX_EPOCH$')
def _unix_epoch(m, raw, name):
    return Adt('std::time::SystemTime', None, {0: 0})

@I.const_rx(r'^(core::num::<impl (\w+)>|(\w+))::(MAX|MIN)$')
def _int_minmax(m, raw, name):
    mm = re.match(r'^(?:core::num::<impl (\w+)>|(\w+))::(MAX|MIN)$', name)
    ty = sym.INT_TYPES.get(mm.group(1) or mm.group(2))
    if ty is None:
        return None
    return ty.hi if mm.group(3) == 'MAX' else ty.lo

@I.rx(r'^<(u8|u16|u32|u64|u128|usize|i8|i16|i32|i64|i128|isize) as Default>::default$')
def _int_default(m, args, ci):
    return 0

@I.rx(r'^<bool as Default>::default$')
def _bool_default(m, args, ci):
    return False

@I.rx(r'^<(std::ops::)?Range as Iterator>::next$|^(core|std)::iter::range::<impl Iterator for (std::ops::)?Range>::next$')
def _range_next(m, args, ci):
    it = as_iter(m, args[0])
    x = it.next(m)
    return none() if x is None else some(x)

# ----------------------------------------------------------------------------
# HashMap as an association list; key equality is decided by the solver
# ----------------------------------------------------------------------------
class HMap:
    def __init__(self):
        self.entries = []       # [key value, Cell(value)]
    def find(self, m, key, label='hashmap.key='):
        key = deref_val(key) if isinstance(key, Ref) else key
        for i, (k, cell) in enumerate(self.entries):
            if m.branch(value_eq(m, k, key), label):
                return i
        return None
    def on_drop(self, m):
        for k, cell in self.entries:
            m.drop_value(cell.v)

@I.rx(r'(^|::)(HashMap|BTreeMap)::new$|^<(std::collections::)?(HashMap|BTreeMap) as Default>::default$')
def _hm_new(m, args, ci):
    return HMap()

@I.rx(r'(^|::)(HashMap|BTreeMap)::(get|get_mut)$')
def _hm_get(m, args, ci):
    hm = deref_val(args[0])
    i = hm.find(m, args[1])
    return none() if i is None else some(Ref(hm.entries[i][1], 'v'))

@I.rx(r'(^|::)(HashMap|BTreeMap)::contains_key$')
def _hm_contains(m, args, ci):
    hm = deref_val(args[0])
    return hm.find(m, args[1]) is not None

@I.rx(r'(^|::)(HashMap|BTreeMap)::remove$')
def _hm_remove(m, args, ci):
    hm = deref_val(args[0])
    i = hm.find(m, args[1])
    if i is None:
        return none()
    k, cell = hm.entries.pop(i)
    return some(cell.v)

@I.rx(r'(^|::)(HashMap|BTreeMap)::insert$')
def _hm_insert(m, args, ci):
    hm = deref_val(args[0])
    i = hm.find(m, args[1])
    if i is None:
        hm.entries.append([args[1], Cell(args[2])])
        return none()
    old = hm.entries[i][1].v
    hm.entries[i][1].v = args[2]
    return some(old)

@I.rx(r'(^|::)(HashMap|BTreeMap)::(len|is_empty)$')
def _hm_len(m, args, ci):
    hm = deref_val(args[0])
    return len(hm.entries) if ci.name.endswith('len') else len(hm.entries) == 0

class HEntry:
    def __init__(self, hm, key, idx):
        self.hm = hm
        self.key = key
        self.idx = idx

def _entry_adt(e):
    return Adt('std::collections::hash_map::Entry', 'Vacant' if e.idx is None else 'Occupied', {0: e})

def _entry_inner(v):
    v = deref_val(v) if isinstance(v, Ref) else v
    if isinstance(v, Adt) and last_seg(v.ty) == 'Entry':
        return v.fields[0]
    return v

@I.rx(r'(^|::)(HashMap|BTreeMap)::entry$')
def _hm_entry(m, args, ci):
    hm = deref_val(args[0])
    i = hm.find(m, args[1])
    return _entry_adt(HEntry(hm, args[1], i))

def _vacant_insert(m, e, v):
    e.hm.entries.append([e.key, Cell(v)])
    e.idx = len(e.hm.entries) - 1
    m.event('hashmap_insert', _show_key(e.key))
    return Ref(e.hm.entries[e.idx][1], 'v')

@I.rx(r'(^|::)Entry::or_insert_with$')
def _entry_or_insert_with(m, args, ci):
    e = _entry_inner(args[0])
    if e.idx is None:
        return _vacant_insert(m, e, m.call_closure(args[1], []))
    return Ref(e.hm.entries[e.idx][1], 'v')

@I.rx(r'(^|::)Entry::or_insert$')
def _entry_or_insert(m, args, ci):
    e = _entry_inner(args[0])
    if e.idx is None:
        return _vacant_insert(m, e, args[1])
    return Ref(e.hm.entries[e.idx][1], 'v')

@I.rx(r'(^|::)VacantEntry::insert$')
def _vacant_entry_insert(m, args, ci):
    return _vacant_insert(m, _entry_inner(args[0]), args[1])

@I.rx(r'(^|::)OccupiedEntry::(into_mut|get_mut|get)$')
def _occupied_get(m, args, ci):
    e = _entry_inner(args[0])
    return Ref(e.hm.entries[e.idx][1], 'v')

@I.rx(r'(^|::)OccupiedEntry::insert$')
def _occupied_insert(m, args, ci):
    e = _entry_inner(args[0])
    old = e.hm.entries[e.idx][1].v
    e.hm.entries[e.idx][1].v = args[1]
    return old

@I.rx(r'(^|::)OccupiedEntry::(remove|remove_entry)$')
def _occupied_remove(m, args, ci):
    e = _entry_inner(args[0])
    k, cell = e.hm.entries.pop(e.idx)
    return cell.v if ci.name.endswith('remove') else tuple_(k, cell.v)

@I.rx(r'(^|::)(Entry|VacantEntry|OccupiedEntry)::key$')
def _entry_key(m, args, ci):
    e = _entry_inner(args[0])
    return Ref(Cell(e.key), 'v')

@I.rx(r'(^|::)Entry::and_modify$')
def _entry_and_modify(m, args, ci):
    ent = args[0]
    e = _entry_inner(ent)
    if e.idx is not None:
        m.call_closure(args[1], [Ref(e.hm.entries[e.idx][1], 'v')])
    return ent

def _show_key(k):
    if isinstance(k, Adt) and k.fields:
        v = k.fields.get(0)
        return sym.show(v) if isinstance(v, T) else repr(v)
    return repr(k)

# ----------------------------------------------------------------------------
# serde_json as a token contract: to_string freezes a value, from_str thaws it for the same type
# ----------------------------------------------------------------------------
class JsonTok:
    def __init__(self, value, ty):
        self.value = value
        self.ty = ty
    def __repr__(self):
        return 'json<%s>%r' % (self.ty, self.value)
    def __eq__(self, o):
        return isinstance(o, JsonTok) and repr(self) == repr(o)
    def __hash__(self):
        return hash(repr(self))

@I.rx(r'^serde_json::to_string$|^serde_json::ser::to_string$')
def _json_to_string(m, args, ci):
    v = deref_val(args[0])
    ty = last_seg(v.ty) if isinstance(v, Adt) else type(v).__name__
    return ok(Seq([], 'str', tag=JsonTok(clone_value(m, v), ty)))

@I.rx(r'^serde_json::from_str$|^serde_json::de::from_str$')
def _json_from_str(m, args, ci):
    s, a, b = seq_of(args[0])
    g = ci.generic_args()
    want = None
    if g:
        from .mir import split_top as _st
        parts = [x for x in _st(g[-1]) if not x.startswith("'")]
        want = last_seg(type_head(parts[-1])) if parts else None
    dty = ci.dest_type(m) or ''
    if want is None or want.startswith("'"):
        mm = re.match(r'^(?:std::result::)?Result<(.*), serde_json::Error>$', dty)
        want = last_seg(type_head(mm.group(1))) if mm else None
    tok = s.tag
    if isinstance(tok, JsonTok) and (want is None or tok.ty == want):
        return ok(clone_value(m, tok.value))
    return err(Opaque('serde_json::Error', 'token %r is not a %s' % (tok, want)))

@I.rx(r'^std::io::(error::)?Error::(new|other)$|^std::io::(error::)?Error::from$')
def _io_error_new(m, args, ci):
    return Opaque('io::Error', None)

@I.rx(r'^<(std::string::)?String as Default>::default$')
def _string_default(m, args, ci):
    return Seq([], 'str')

@I.rx(r'^<(std::vec::)?Vec as Default>::default$')
def _vec_default(m, args, ci):
    return Seq([], 'vec')

@I.rx(r'^<(std::option::)?Option as Default>::default$')
def _option_default(m, args, ci):
    return none()

from . import lib_std2  # noqa: E402  (registers further std contracts)
