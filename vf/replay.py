"""Build and drive the native replay crate (real /repo sources via #[path])."""
import os
import re
import json
import fcntl
import shutil
import subprocess
import tempfile
from . import dump

REPO = dump.REPO
CRATE = os.path.join(dump.VERIF, 'replay')
TARGET = os.path.join(dump.CACHE, 'target-replay')

class ReplayBuildError(Exception):
    pass

def _deps_section():
    txt = open(os.path.join(REPO, 'Cargo.toml')).read()
    m = re.search(r'^\[dependencies\]\n(.*?)(?=^\[|\Z)', txt, re.S | re.M)
    deps = m.group(1) if m else ''
    # the replay crate additionally needs tokio's paused clock and unix sockets (features only, same version)
    def addfeat(mm):
        feats = mm.group(2)
        for f in ('"test-util"', '"time"', '"net"', '"rt"', '"sync"'):
            if f not in feats:
                feats += ', ' + f
        return mm.group(1) + feats + mm.group(3)
    deps = re.sub(r'(tokio = \{[^\n]*features = \[)([^\]]*)(\])', addfeat, deps)
    return '[dependencies]\n' + deps

def build(profile='dev'):
    """(Re)build the replay binary against /repo's current sources; returns its path."""
    os.makedirs(dump.CACHE, exist_ok=True)
    lock = open(os.path.join(dump.CACHE, 'replay.lock'), 'w')
    fcntl.flock(lock, fcntl.LOCK_EX)
    try:
        tpl = open(os.path.join(CRATE, 'Cargo.toml.in')).read()
        new = tpl.replace('@DEPENDENCIES@', _deps_section())
        ct = os.path.join(CRATE, 'Cargo.toml')
        if not os.path.exists(ct) or open(ct).read() != new:
            open(ct, 'w').write(new)
        lk = os.path.join(CRATE, 'Cargo.lock')
        if not os.path.exists(lk):
            shutil.copy(os.path.join(REPO, 'Cargo.lock'), lk)
        env = dict(os.environ)
        env['CARGO_TARGET_DIR'] = TARGET
        env['CARGO_NET_OFFLINE'] = 'true'
        env.pop('RUSTFLAGS', None)
        cmd = ['cargo', 'build', '--offline', '--quiet', '--manifest-path', ct]
        if profile == 'release':
            cmd.append('--release')
        p = subprocess.run(cmd, cwd=CRATE, env=env, stdout=subprocess.PIPE, stderr=subprocess.PIPE, text=True)
        if p.returncode != 0:
            raise ReplayBuildError('replay crate does not build (%s):\n%s' % (profile, p.stderr[-3000:]))
        return os.path.join(TARGET, 'release' if profile == 'release' else 'debug', 'replay')
    finally:
        fcntl.flock(lock, fcntl.LOCK_UN)
        lock.close()

_bins = {}

def binary(profile='dev'):
    if profile not in _bins:
        _bins[profile] = build(profile)
    return _bins[profile]

def run(kind, inp, profile='dev', timeout=120):
    """Run one replay; returns the observation dict."""
    b = binary(profile)
    os.makedirs(os.path.join(dump.VERIF, 'out', 'tmp'), exist_ok=True)
    fd, path = tempfile.mkstemp(suffix='.json', dir=os.path.join(dump.VERIF, 'out', 'tmp'))
    with os.fdopen(fd, 'w') as f:
        json.dump(inp, f)
    try:
        p = subprocess.run([b, kind, path], stdout=subprocess.PIPE, stderr=subprocess.PIPE, text=True, timeout=timeout)
    finally:
        os.remove(path)
    if p.returncode != 0:
        return {'outcome': 'crash', 'code': p.returncode, 'stderr': p.stderr[-500:]}
    try:
        return json.loads(p.stdout.strip().split('\n')[-1])
    except Exception:
        return {'outcome': 'garbled', 'stdout': p.stdout[-500:]}

def batch(cases, profile='dev', timeout=600):
    """cases: [(kind, input)] -> [observation]"""
    if not cases:
        return []
    r = run('batch', {'cases': [{'kind': k, 'input': i} for k, i in cases]}, profile, timeout)
    if 'results' not in r:
        raise ReplayBuildError('batch replay failed: %r' % (r,))
    return r['results']
