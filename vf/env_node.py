"""Environment model: Core Lightning as seen through the crate's ClnRpc trait, plus the domain
values the crate treats as opaque (payment hashes, preimages, invoices, public keys).

Contracts (CLN manual pages, pinned cln-rpc 0.1.9 types):
  datastore      mode must-create fails if the key exists, must-replace fails if absent,
                 create-or-replace always applies; `generation` given => must match the stored one;
                 generation is 0 on create and increments on every update.
  listdatastore  exact key -> zero or one entry.
  listsendpays   parts of the hash with the requested status at the linearisation point.
  waitsendpay    returns once the part is no longer pending: complete -> preimage; failed -> RPC error
                 with a code from {202,203,204,208,209} (thorough: any code / transport error).
  pay            creates parts while it runs; returns complete (a part is complete; its preimage),
                 pending, failed (no part pending or complete), failed + warning_partial_completion,
                 or an RPC error; once it has returned that command creates no further parts.
  getinfo        current height, node id.
Every RPC has a call event (first poll of its future), one linearisation point (environment
transition that applies the effect and fixes the answer) and a completion (next poll of the future).
"""
import re
from . import sym
from .sym import T
from .values import Adt, Ref, Seq, Slice, Cell, FnItem, Opaque, MOVED, UNINIT, unit
from .machine import Unsupported, Panic, Infeasible, make_box, box_ref, last_seg
from .intrinsics import (I, some, none, ok, err, ready, pending, tuple_, deref_val, clone_value, is_variant, qualified)
from .lib_tokio import sched, ReadyFut
from .lib_std import seq_of, value_eq

# ----------------------------------------------------------------------------
# domain values
# ----------------------------------------------------------------------------
def hash_value(term):
    return Adt('Sha256', None, {0: term})

def hash_term(v):
    v = deref_val(v) if isinstance(v, Ref) else v
    if isinstance(v, Adt) and v.ty == 'Sha256':
        return v.fields[0]
    raise Unsupported('expected a payment hash, got %r' % (v,))

def preimage_of(h):
    """The unique preimage term of hash term h (SHA-256 is a contract, not executed)."""
    return sym.uf('pre', 'I', h)

def secret_value(pre_term):
    return Adt('Secret', None, {0: pre_term})

def token_bytes(tag, kind='vec'):
    """A byte string known only by identity."""
    return Seq([], kind, tag=tag)

class Invoice:
    """lightning-invoice Bolt11Invoice as an uninterpreted record of its observable attributes."""
    def __init__(self, ident, hash_t, amount, sig_ok=True, payee=None, hints=()):
        self.ident = ident          # term / int: identity of the invoice string
        self.hash = hash_value(hash_t)
        self.amount = amount        # None or term
        self.sig_ok = sig_ok
        self.payee = payee if payee is not None else pubkey_value(sym.uf('payee', 'I', ident) if isinstance(ident, T) else ('payee', ident))
        self.hints = list(hints)    # [[node id terms of hops]]
    def clone_hook(self, m):
        return self
    def eq_hook(self, m, other):
        o = deref_val(other) if isinstance(other, Ref) else other
        return sym.eq(self.ident, o.ident) if isinstance(o, Invoice) else False
    def get(self, k, d=None):
        return getattr(self, k, d)
    def __setitem__(self, k, v):
        setattr(self, k, v)
    def __repr__(self):
        return 'Invoice(%s)' % (sym.show(self.ident),)

def pubkey_value(term):
    return Adt('PublicKey', None, {0: term})

@I.rx(r'(^|::)Bolt11Invoice::payment_hash$')
def _inv_payment_hash(m, args, ci):
    inv = deref_val(args[0])
    return Ref(inv, 'hash')

@I.rx(r'(^|::)Bolt11Invoice::amount_milli_satoshis$')
def _inv_amount(m, args, ci):
    inv = deref_val(args[0])
    return none() if inv.amount is None else some(inv.amount)

@I.rx(r'(^|::)Bolt11Invoice::(min_final_cltv_expiry_delta|expiry_time|duration_since_epoch|timestamp|is_expired)$')
def _inv_misc_attr(m, args, ci):
    """Further observable attributes of an invoice: uninterpreted functions of its identity (consistent per invoice)."""
    inv = deref_val(args[0])
    meth = ci.name.rsplit('::', 1)[1]
    ident = inv.ident if isinstance(inv.ident, T) else sym.var('invoice!%r' % (inv.ident,))
    v = sym.uf('inv_' + meth, 'I', ident)
    if meth == 'min_final_cltv_expiry_delta':
        m.pc.append(sym.and_(sym.ge(v, 0), sym.le(v, 2 ** 64 - 1)))
        return v
    if meth == 'is_expired':
        return m.branch(sym.eq(v, 1), 'invoice.is_expired')
    m.pc.append(sym.and_(sym.ge(v, 0), sym.le(v, 2 ** 63 - 1)))
    from .lib_std import dur, NANOS
    return dur(sym.mul(v, NANOS))

@I.rx(r'(^|::)Bolt11Invoice::check_signature$')
def _inv_check_sig(m, args, ci):
    inv = deref_val(args[0])
    if m.branch(inv.sig_ok, 'invoice.sig_ok'):
        return ok(unit())
    return err(Opaque('Bolt11SemanticError'))

@I.rx(r'(^|::)Bolt11Invoice::(get_payee_pub_key|recover_payee_pub_key)$')
def _inv_payee(m, args, ci):
    inv = deref_val(args[0])
    if not (inv.sig_ok is True) and m.feasible(sym.not_(inv.sig_ok)) and m.branch(sym.not_(inv.sig_ok), 'payee.without.sig'):
        raise Panic('get_payee_pub_key on an invoice whose signature does not verify')
    return clone_value(m, inv.payee)

@I.rx(r'(^|::)Bolt11Invoice::(route_hints|private_routes)$')
def _inv_route_hints(m, args, ci):
    inv = deref_val(args[0])
    out = []
    for hops in inv.hints:
        hopvals = [Adt('RouteHintHop', None, {0: pubkey_value(h)}, ['src_node_id']) for h in hops]
        out.append(Adt('RouteHint', None, {0: Seq(hopvals, 'vec')}))
    return Seq(out, 'vec')

@I.rx(r'^<(secp256k1::)?PublicKey as PartialEq>::(eq|ne)$|(^|::)PublicKey::(eq|ne)$')
def _pk_eq(m, args, ci):
    a, b = deref_val(args[0]), deref_val(args[1])
    r = sym.eq(a.fields[0], b.fields[0]) if isinstance(a.fields[0], (T, int)) and isinstance(b.fields[0], (T, int)) else (a.fields[0] == b.fields[0])
    return r if ci.name.endswith('eq') else sym.not_(r)

@I.rx(r'(^|::)Hash::(to_byte_array|as_byte_array|into_inner|to_vec)$|^<(.*::)?(Hash|Sha256) as (AsRef|Borrow|Deref)>::(as_ref|borrow|deref)$|^<(.*::)?(Hash|Sha256) as ([\w:]*::)?Hash>::(to_byte_array|as_byte_array|into_inner)$')
def _hash_bytes(m, args, ci):
    h = hash_term(args[0])
    s = Seq([], 'array', tag=('hashbytes', h))
    s.tag = h
    if ci.name.endswith(('as_ref', 'borrow', 'deref', 'as_byte_array')):
        return Slice(s) if not ci.name.endswith('as_byte_array') else Ref(Cell(s), 'v')
    return s

@I.rx(r'^<(.*::)?(Hash|Sha256) as ([\w:]*::)?Hash>::(from_slice|from_byte_array|from_bytes_ref)$|(^|::)(Hash|Sha256)::(from_slice|from_byte_array)$')
def _hash_from_bytes(m, args, ci):
    """A hash value from its 32 bytes: the bytes of a hash are known only by identity (tag = the hash term)."""
    v = deref_val(args[0]) if isinstance(args[0], Ref) else args[0]
    sq = seq_of(v)[0] if isinstance(v, (Seq, Slice)) else None
    tag = getattr(sq, 'tag', None)
    if tag is None:
        raise Unsupported('hash from bytes that are not the bytes of a known hash: %r' % (v,))
    hv = hash_value(tag)
    return ok(hv) if ci.name.endswith('from_slice') else hv

@I.rx(r'^<(.*::)?(Hash|Sha256) as (hex::)?ToHex>::encode_hex$|^hex::encode$|^<.* as (hex::)?ToHex>::encode_hex$')
def _encode_hex(m, args, ci):
    v = deref_val(args[0]) if isinstance(args[0], Ref) else args[0]
    if isinstance(v, Adt) and v.ty == 'Sha256':
        return Seq([], 'str', tag=v.fields[0])         # hex encoding is injective: identity of the hash
    if isinstance(v, (Seq, Slice)):
        s, a, b = seq_of(v)
        if s.tag is not None:
            return Seq([], 'str', tag=s.tag)
        return Seq([], 'str', tag=('hex', tuple(s.items[a:b])))
    return Seq([], 'str', tag=('hex', repr(v)))

@I.rx(r'(^|::)Secret::to_vec$')
def _secret_to_vec(m, args, ci):
    s = args[0]
    return token_bytes(s.fields[0], 'vec')

@I.rx(r'(^|::)Amount::from_msat$|^cln_rpc::primitives::Amount::from_msat$')
def _amount_from_msat(m, args, ci):
    return Adt('Amount', None, {0: args[0]}, ['msat'])

@I.rx(r'(^|::)Amount::msat$')
def _amount_msat(m, args, ci):
    return deref_val(args[0]).fields[0]

# ----------------------------------------------------------------------------
# struct construction by field name using the registry (declaration order = MIR field index)
# ----------------------------------------------------------------------------
def mk_struct(m, ty, **kw):
    names = m.reg.struct_fields(ty)
    if names is None:
        raise Unsupported('struct layout of %s not found in pinned sources' % ty)
    fields = {}
    for i, n in enumerate(names):
        fields[i] = kw.pop(n, none())
    if kw:
        raise Unsupported('unknown fields %s for %s' % (list(kw), ty))
    return Adt(m.reg.canon_struct(ty), None, fields, list(names))

def field(m, v, name):
    v = deref_val(v) if isinstance(v, Ref) else v
    names = v.names or m.reg.struct_fields(v.ty)
    return v.fields[names.index(name)]

def enum_unit(m, ty, variant):
    e = m.reg.enum_def(ty)
    return Adt(e.full if e else ty, variant, {})

# Where the node boundary sits.  'low' (default): the crate's own src/rpc.rs wrapper (`impl ClnRpc for Rpc`) runs from
# MIR and the boundary is cln_rpc::ClnRpc::{new, call_typed}; 'high': `<Rpc as ClnRpc>::method` itself is the boundary
# (the wrapper is then a contract: it forwards the request and the answer unchanged).
import os as _os
LOW_BOUNDARY = _os.environ.get('VERIF_RPC_BOUNDARY', 'low') != 'high'

def rpc_error(m, code, kind='Rpc'):
    """High boundary: crate::rpc::RpcError::Rpc(cln_rpc::RpcError{code,..}) or ::General(anyhow).
    Low boundary: what cln_rpc::ClnRpc::call_typed returns, a cln_rpc::RpcError -- an error of the node (with its code)
    or a lost / unreadable answer (kind 'General': no code); the crate's own From impls wrap it."""
    if kind == 'General' and not LOW_BOUNDARY:
        return Adt('rpc::RpcError', 'General', {0: Opaque('anyhow', 'transport')})
    if kind == 'General':
        code = None
    inner = Adt('cln_rpc::primitives::RpcError', None,
                {0: none() if code is None else some(code), 1: Seq([], 'str', tag=('rpcmsg', code)), 2: none()},
                ['code', 'message', 'data'])
    if LOW_BOUNDARY:
        return inner
    return Adt('rpc::RpcError', 'Rpc', {0: inner})

# ----------------------------------------------------------------------------
# node state
# ----------------------------------------------------------------------------
class Part:
    def __init__(self, pid, hash_t, groupid=1, partid=None):
        self.pid = pid
        self.hash = hash_t
        self.status = 'pending'       # pending | complete | failed
        self.groupid = groupid
        self.partid = partid if partid is not None else pid + 1
        self.failcode = None
        self.by_pay = None

class Call:
    def __init__(self, cid, method, args, task):
        self.cid = cid
        self.method = method
        self.args = args
        self.task = task
        self.state = 'new'            # new (future not yet polled) | called | done | consumed
        self.result = None
        self.waiters = set()
        self.info = {}

class RpcFut:
    def __init__(self, call):
        self.call = call
    def on_drop(self, m):
        if self.call.state in ('new', 'called'):
            self.call.info['dropped'] = True
    def poll(self, m, ref, cx):
        c = self.call
        s = sched(m)
        if c.state == 'new':
            c.state = 'called'
            c.task = s.cur
            held = [mx.label for mx in m.st.mutexes if mx.locked_by == s.cur]
            m.event('rpc_call', c.cid, c.method, s.cur, tuple(held))
            m.st.env.on_call(m, c)
        if c.state == 'done':
            c.state = 'consumed'
            m.event('rpc_return', c.cid, c.method, s.cur)
            return ready(c.result)
        s.register(c.waiters)
        return pending()

def boxed_future(fut):
    return Adt('Pin', None, {0: make_box(fut)})

class CallTable:
    """RPC calls keyed by a schedule-independent id (issuing task * 100 + per-task sequence number), iterated in id
    order: two interleavings that differ only in the order in which independent tasks issued their calls reach the
    same state."""
    def __init__(self):
        self.d = {}
    def add(self, c):
        self.d[c.cid] = c
    def __getitem__(self, cid):
        return self.d[cid]
    def __iter__(self):
        return iter([self.d[k] for k in sorted(self.d)])
    def __len__(self):
        return len(self.d)

class NodeEnv:
    """Node model.  Harnesses configure it (faults, part budget, which transitions are offered)."""
    def __init__(self):
        self.datastore = {}           # key tuple -> [string value, generation]
        self.parts = []
        self.calls = CallTable()
        self.call_seq = {}
        self.pays = []                # running pay commands: dicts
        self.height = 0
        self.node_id = pubkey_value(sym.var('local_node_id'))
        self.clock = 0                # lower bound of the (non-decreasing) wall clock in ns
        self.clock_reads = 0
        self.fault_budget = 0
        self.faults_used = 0
        self.fault_methods = ()       # methods that may fail
        self.fault_codes = ((-1, 'Rpc'),)
        self.max_parts = 1
        self.pay_outcomes = ('complete', 'failed')
        self.wait_fail_codes = (204,)
        self.resolve_eagerly = False
        self.payee_releases = True    # may parts complete at all
        self.log = []                 # RPC log (method, summary) for oracles / replay
        self.payer_hooks = None

    # ---- clock -----------------------------------------------------------------
    def now_ns(self, m):
        self.clock_reads += 1
        t = m.fresh('now')
        m.pc.append(sym.and_(sym.ge(t, self.clock), sym.le(t, (2 ** 63))))
        self.clock = t
        m.event('clock', t)
        return t

    # ---- boundary --------------------------------------------------------------
    RPC_RE = re.compile(r'^<(R|Rpc|rpc::Rpc) as (rpc::)?ClnRpc>::(datastore|get_info|listdatastore|listsendpays|pay|waitsendpay)$')

    LOW_NEW_RE = re.compile(r'^(cln_rpc::)?ClnRpc::new$')
    LOW_CALL_RE = re.compile(r'^(cln_rpc::)?ClnRpc::call_typed$')
    REQ_METHOD = {'DatastoreRequest': 'datastore', 'GetinfoRequest': 'get_info', 'ListdatastoreRequest': 'listdatastore',
                  'ListsendpaysRequest': 'listsendpays', 'PayRequest': 'pay', 'WaitsendpayRequest': 'waitsendpay'}
    WRAPPER_RE = re.compile(r'::(datastore|get_info|listdatastore|listsendpays|pay|waitsendpay)::\{closure#0\}$')

    def intercept(self, m, name, raw, args):
        if LOW_BOUNDARY:
            if self.LOW_NEW_RE.match(name):
                # connecting to lightning-rpc: succeeds, or (a fault of kind 'General', within the fault budget, for the
                # methods faults are enabled for) fails -- the only source of the crate's RpcError::General
                method = None
                for fr in reversed(m.cur):
                    w = self.WRAPPER_RE.search(fr)
                    if w:
                        method = w.group(1)
                        break
                if (self.faults_used < self.fault_budget and method in self.fault_methods
                        and any(k == 'General' for _c, k in self.fault_codes)):
                    if m.choose(2, 'connect-fault?%s' % method) == 1:
                        self.faults_used += 1
                        m.event('rpc_fault', -1, method, None, 'Connect')
                        self.log.append((method, 'FAULT', 'connect'))
                        return (ReadyFut(err(Opaque('anyhow', 'connect'))),)
                return (ReadyFut(ok(Adt('cln_rpc::ClnRpc', None, {0: Opaque('conn')}))),)
            if self.LOW_CALL_RE.match(name):
                req = args[1] if len(args) > 1 else None
                if isinstance(req, Ref):
                    req = clone_value(m, req.get())
                method = self.REQ_METHOD.get(last_seg(req.ty) if isinstance(req, Adt) else '')
                if method is None:
                    raise Unsupported('call_typed with request %r' % (req,))
                if method == 'get_info':
                    req = None
                tid = sched(m).cur if m.st.sched is not None and m.st.sched.cur is not None else 99
                k = self.call_seq.get(tid, 0)
                self.call_seq[tid] = k + 1
                c = Call(tid * 100 + k, method, req, None)
                self.calls.add(c)
                return (RpcFut(c),)
            mm = self.RPC_RE.match(name)
            if mm:
                # `R: ClnRpc` in generic code is always the crate's Rpc: run its wrapper
                b = m.prog.keys.get('<Rpc as ClnRpc>::%s' % mm.group(3))
                if b is None:
                    raise Unsupported('no body for <Rpc as ClnRpc>::%s' % mm.group(3))
                return (m.call_body(b, args),)
            return None
        mm = self.RPC_RE.match(name)
        if mm:
            method = mm.group(3)
            req = args[1] if len(args) > 1 else None
            if isinstance(req, Ref):
                req = clone_value(m, req.get())
            tid = sched(m).cur if m.st.sched is not None and m.st.sched.cur is not None else 99
            k = self.call_seq.get(tid, 0)
            self.call_seq[tid] = k + 1
            c = Call(tid * 100 + k, method, req, None)
            self.calls.add(c)
            return (boxed_future(RpcFut(c)),)
        return None

    def on_call(self, m, c):
        pass

    # ---- transitions ---------------------------------------------------------------
    def transitions(self, m):
        out = []
        for c in self.calls:
            if c.state != 'called':
                continue
            if c.method == 'waitsendpay':
                p = self.find_part(m, c)
                if p is not None and p.status == 'pending':
                    # blocks until the part resolves -- unless the request carries a timeout: then the node may answer
                    # "timed out" (code 200) at any moment while the part is still pending
                    try:
                        has_to = is_variant(field(m, c.args, 'timeout'), 'Some')
                    except Exception:
                        has_to = False
                    if has_to:
                        out.append(('lin waitsendpay#%d' % c.cid, self._lin_wait_timeout(c.cid)))
                    continue
            if c.method == 'pay':
                out.extend(self.pay_transitions(m, c))
                continue
            out.append(('lin %s#%d' % (c.method, c.cid), self._lin(c.cid)))
        for p in self.parts:
            if p.status == 'pending':
                if self.payee_releases:
                    out.append(('part%d->complete' % p.pid, self._resolve(p.pid, 'complete')))
                if getattr(self, 'parts_can_fail', True):
                    out.append(('part%d->failed' % p.pid, self._resolve(p.pid, 'failed')))
        return out

    def _lin_wait_timeout(self, cid):
        def f(m):
            env = m.st.env
            c = env.calls[cid]
            env.log.append(('waitsendpay', None, 'timeout', 200))
            c.info['timeout_answer'] = True
            m.event('waitsendpay_timeout', cid)
            env.finish(m, c, err(rpc_error(m, 200)))
        return f

    def _lin(self, cid):
        def f(m):
            env = m.st.env
            env.linearise(m, env.calls[cid])
        return f

    def _resolve(self, pid, status):
        def f(m):
            env = m.st.env
            p = env.parts[pid]
            p.status = status
            m.event('part', pid, status)
            env.log.append(('part', pid, status))
            # a waitsendpay blocked on it becomes linearisable: nothing to wake (env transition)
        return f

    def finish(self, m, c, result):
        c.result = result
        c.state = 'done'
        m.event('rpc_lin', c.cid, c.method)
        sched(m).wake(c.waiters)

    def maybe_fault(self, m, c):
        """Fault injection at the linearisation point: returns an Err result or None."""
        if self.faults_used < self.fault_budget and c.method in self.fault_methods:
            n = 1 + len(self.fault_codes)
            k = m.choose(n, 'fault?%s' % c.method)
            if k > 0:
                self.faults_used += 1
                code, kind = self.fault_codes[k - 1]
                m.event('rpc_fault', c.cid, c.method, code, kind)
                self.log.append((c.method, 'FAULT', code))
                return err(rpc_error(m, code, kind))
        return None

    def linearise(self, m, c):
        f = self.maybe_fault(m, c)
        if f is not None:
            return self.finish(m, c, f)
        getattr(self, 'lin_' + c.method)(m, c)

    # ---- getinfo -------------------------------------------------------------------
    def lin_get_info(self, m, c):
        h = self.next_height(m)
        resp = mk_struct(m, 'GetinfoResponse', blockheight=h, id=clone_value(m, self.node_id),
                         lightning_dir=Seq([], 'str', tag='dir'), color=Seq([], 'str', tag='color'),
                         fees_collected_msat=Adt('Amount', None, {0: 0}), network=Seq([], 'str', tag='net'),
                         num_active_channels=0, num_inactive_channels=0, num_peers=0, num_pending_channels=0,
                         version=Seq([], 'str', tag='ver'))
        self.log.append(('get_info', h))
        self.finish(m, c, ok(resp))

    def next_height(self, m):
        return self.height

    # ---- datastore -----------------------------------------------------------------
    def key_of(self, m, keyvec):
        out = []
        for s in keyvec.items:
            if s.tag is not None:
                out.append(('tok', s.tag))
            else:
                out.append(bytes(s.items).decode('utf-8', 'replace'))
        return tuple(out)

    def ds_lookup(self, m, key):
        """Stored entry for key, deciding symbolic key equality with the solver (forks)."""
        for k, v in self.datastore.items():
            if len(k) != len(key):
                continue
            conds = []
            same = True
            for a, b in zip(k, key):
                if isinstance(a, tuple) and isinstance(b, tuple):
                    e = sym.eq(a[1], b[1]) if (isinstance(a[1], (T, int)) and isinstance(b[1], (T, int))) else (a[1] == b[1])
                    conds.append(e)
                elif a != b:
                    same = False
                    break
            if not same:
                continue
            c = sym.and_(*conds) if conds else True
            if m.branch(c, 'dskey='):
                return k
        return None

    def lin_datastore(self, m, c):
        req = c.args
        key = self.key_of(m, field(m, req, 'key'))
        mode = field(m, req, 'mode')
        modev = mode.fields[0].variant if is_variant(mode, 'Some') else 'MUST_CREATE'
        gen = field(m, req, 'generation')
        string = field(m, req, 'string')
        val = string.fields[0] if is_variant(string, 'Some') else None
        k = self.ds_lookup(m, key)
        fail = None
        if modev == 'MUST_CREATE' and k is not None:
            fail = 1202
        elif modev == 'MUST_REPLACE' and k is None:
            fail = 1200
        elif is_variant(gen, 'Some'):
            if k is None:
                fail = 1201
            else:
                g = gen.fields[0]
                if not m.branch(sym.eq(g, self.datastore[k][1]), 'ds.generation='):
                    fail = 1201
        summary = (modev, _keystr(key), _tokstr(val))
        if fail is not None:
            m.event('ds_write_rejected', c.cid, summary, fail)
            self.log.append(('datastore', 'REJECTED', summary, fail))
            return self.finish(m, c, err(rpc_error(m, fail)))
        # write faults: rejected, or applied but reported failed (lost ack)
        wf = self.write_fault(m, c)
        if wf == 'reject':
            m.event('ds_write_fault', c.cid, summary, 'rejected')
            self.log.append(('datastore', 'FAULT-REJECT', summary))
            return self.finish(m, c, err(rpc_error(m, -1, 'General')))
        if k is None:
            self.datastore[key] = [val, 0]
            g2 = 0
        else:
            ent = self.datastore[k]
            ent[0] = val
            ent[1] = sym.add(ent[1], 1)
            g2 = ent[1]
        m.event('ds_write', c.cid, summary, g2)
        self.log.append(('datastore', 'APPLIED', summary, g2))
        self.on_ds_write(m, key if k is None else k)
        if wf == 'lost-ack':
            m.event('ds_write_fault', c.cid, summary, 'lost-ack')
            self.log.append(('datastore', 'FAULT-LOST-ACK', summary))
            return self.finish(m, c, err(rpc_error(m, -1, 'General')))
        resp = mk_struct(m, 'DatastoreResponse', generation=some(g2), string=some(clone_value(m, val)) if val is not None else none(),
                         key=clone_value(m, field(m, req, 'key')))
        self.finish(m, c, ok(resp))

    def write_fault(self, m, c):
        return None

    def on_ds_write(self, m, key):
        pass

    def lin_listdatastore(self, m, c):
        req = c.args
        keyo = field(m, req, 'key')
        out = []
        if is_variant(keyo, 'Some'):
            key = self.key_of(m, keyo.fields[0])
            k = self.ds_lookup(m, key)
            if k is not None:
                ent = self.datastore[k]
                out.append(mk_struct(m, 'ListdatastoreDatastore', generation=some(ent[1]),
                                     string=some(clone_value(m, ent[0])) if ent[0] is not None else none(),
                                     key=clone_value(m, keyo.fields[0])))
                self.log.append(('listdatastore', _keystr(key), _tokstr(ent[0])))
            else:
                self.log.append(('listdatastore', _keystr(key), None))
        else:
            raise Unsupported('listdatastore without key')
        self.finish(m, c, ok(mk_struct(m, 'ListdatastoreResponse', datastore=Seq(out, 'vec'))))

    # ---- sendpays --------------------------------------------------------------------
    def parts_of(self, m, h):
        """Parts whose hash equals h (decided with the solver when symbolic)."""
        out = []
        for p in self.parts:
            e = sym.eq(p.hash, h)
            if m.branch(e, 'part.hash='):
                out.append(p)
        return out

    def lin_listsendpays(self, m, c):
        req = c.args
        ho = field(m, req, 'payment_hash')
        st = field(m, req, 'status')
        want = st.fields[0].variant.lower() if is_variant(st, 'Some') else None
        if not is_variant(ho, 'Some'):
            raise Unsupported('listsendpays without payment_hash')
        h = hash_term(ho.fields[0])
        out = []
        for p in self.parts_of(m, h):
            if want is None or p.status == want:
                out.append(self.sendpay_entry(m, p))
        self.log.append(('listsendpays', want, [(p.pid, p.status) for p in self.parts]))
        m.event('listsendpays', c.cid, want, tuple((p.pid, p.status) for p in self.parts))
        self.finish(m, c, ok(mk_struct(m, 'ListsendpaysResponse', payments=Seq(out, 'vec'))))

    def sendpay_entry(self, m, p):
        status = enum_unit(m, 'ListsendpaysPaymentsStatus', p.status.upper())
        pre = some(secret_value(preimage_of(p.hash))) if p.status == 'complete' else none()
        return mk_struct(m, 'ListsendpaysPayments', partid=some(p.partid), payment_preimage=pre, status=status,
                         amount_sent_msat=Adt('Amount', None, {0: 0}), created_at=0, groupid=p.groupid, id=p.pid,
                         payment_hash=hash_value(p.hash))

    def find_part(self, m, c):
        if 'part' in c.info:
            return self.parts[c.info['part']] if c.info['part'] is not None else None
        req = c.args
        h = hash_term(field(m, req, 'payment_hash'))
        gid = field(m, req, 'groupid')
        pido = field(m, req, 'partid')
        for p in self.parts:
            conds = [sym.eq(p.hash, h)]
            if is_variant(gid, 'Some'):
                conds.append(sym.eq(p.groupid, gid.fields[0]))
            if is_variant(pido, 'Some'):
                conds.append(sym.eq(p.partid, pido.fields[0]))
            else:
                conds.append(sym.eq(p.partid, 0))
            if m.branch(sym.and_(*conds), 'waitsendpay.part='):
                c.info['part'] = p.pid
                return p
        c.info['part'] = None
        return None

    def lin_waitsendpay(self, m, c):
        p = self.find_part(m, c)
        if p is None:
            self.log.append(('waitsendpay', None, 'no such part'))
            return self.finish(m, c, err(rpc_error(m, 208)))
        if p.status == 'complete':
            resp = mk_struct(m, 'WaitsendpayResponse', payment_preimage=some(secret_value(preimage_of(p.hash))),
                             status=enum_unit(m, 'WaitsendpayStatus', 'COMPLETE'), groupid=some(p.groupid), partid=some(p.partid),
                             amount_sent_msat=Adt('Amount', None, {0: 0}), created_at=0, id=p.pid, payment_hash=hash_value(p.hash))
            self.log.append(('waitsendpay', p.pid, 'complete'))
            return self.finish(m, c, ok(resp))
        codes = self.wait_fail_codes
        code = codes[m.choose(len(codes), 'waitsendpay.code')] if len(codes) > 1 else codes[0]
        self.log.append(('waitsendpay', p.pid, 'failed', code))
        if code == 'transport':
            return self.finish(m, c, err(rpc_error(m, None, 'General')))
        self.finish(m, c, err(rpc_error(m, code)))

    # ---- pay ---------------------------------------------------------------------------
    def on_pay_call(self, m, c):
        pass

    def pay_transitions(self, m, c):
        out = []
        cid = c.cid
        if not c.info.get('started'):
            def start(m, cid=cid):
                env = m.st.env
                cc = env.calls[cid]
                cc.info['started'] = True
                cc.info['parts'] = []
                cc.info['pay_index'] = len([x for x in env.calls if x.method == 'pay' and x.info.get('started') and x is not cc])
                req = cc.args
                cc.info['hash'] = env.pay_hash(m, cc)
                m.event('pay_start', cid, tuple(_tokstr(x) for x in ()))
                env.log.append(('pay', 'start', cid))
                env.on_pay_start(m, cc)
            return [('pay#%d starts' % cid, start)]
        nparts = len(c.info['parts'])
        seq = getattr(self, 'pay_seq', None)      # per pay command, in start order: (max new parts, outcomes); the last entry repeats
        max_parts, outcomes = seq[min(c.info['pay_index'], len(seq) - 1)] if seq else (self.max_parts, self.pay_outcomes)
        if nparts < max_parts and len(self.parts) < self.max_total_parts():
            def mkpart(m, cid=cid):
                env = m.st.env
                cc = env.calls[cid]
                p = Part(len(env.parts), cc.info["hash"], groupid=100 + cid, partid=len(cc.info["parts"]) + 1)
                p.by_pay = cid
                env.parts.append(p)
                cc.info['parts'].append(p.pid)
                m.event('part_created', p.pid, cid)
                env.log.append(('pay', 'part', p.pid))
            out.append(('pay#%d creates part' % cid, mkpart))
        for oc in outcomes:
            if self.pay_outcome_enabled(m, c, oc):
                out.append(('pay#%d returns %s' % (cid, oc), self._pay_return(cid, oc)))
        return out

    def max_total_parts(self):
        return 4

    def pay_hash(self, m, c):
        raise Unsupported('pay_hash must be supplied by the harness')

    def on_pay_start(self, m, c):
        pass

    def pay_parts(self, c):
        """Parts relevant to the invoice of this pay command (all parts of the hash)."""
        return [p for p in self.parts if p.hash is c.info['hash'] or p.hash == c.info['hash']]

    def pay_outcome_enabled(self, m, c, oc):
        ps = self.pay_parts(c)
        anyc = any(p.status == 'complete' for p in ps)
        anyp = any(p.status == 'pending' for p in ps)
        if oc == 'complete':
            return anyc
        if oc == 'pending':
            return anyp and not anyc
        if oc == 'failed':
            return not anyc and not anyp
        if oc in ('failed_warning', 'failed_warning_empty'):
            return True
        if oc.startswith('error'):
            return True
        return False

    def _pay_return(self, cid, oc):
        def f(m):
            env = m.st.env
            c = env.calls[cid]
            c.info['returned'] = oc
            env.log.append(('pay', 'returns', oc, [(p.pid, p.status) for p in env.parts]))
            m.event('pay_return', cid, oc, tuple((p.pid, p.status) for p in env.parts))
            h = c.info['hash']
            if oc.startswith('error'):
                arg = oc.split(':')[1] if ':' in oc else '210'
                if arg == 'none':
                    # the command reached the node but its answer was lost / unreadable: an error without a node error code
                    return env.finish(m, c, err(rpc_error(m, None)))
                return env.finish(m, c, err(rpc_error(m, int(arg))))
            st = {'complete': 'COMPLETE', 'pending': 'PENDING', 'failed': 'FAILED', 'failed_warning': 'FAILED', 'failed_warning_empty': 'FAILED'}[oc]
            pre = preimage_of(h) if oc == 'complete' else m.fresh('garbage_preimage')
            resp = mk_struct(m, 'PayResponse', status=enum_unit(m, 'PayStatus', st), payment_preimage=secret_value(pre),
                             warning_partial_completion=(some(Seq(list(b'partial'), 'str')) if oc == 'failed_warning' else
                                                         some(Seq([], 'str')) if oc == 'failed_warning_empty' else none()),
                             amount_msat=Adt('Amount', None, {0: 0}), amount_sent_msat=Adt('Amount', None, {0: 0}),
                             created_at=Opaque('float', 0.0), parts=len(c.info.get('parts', [])), payment_hash=hash_value(h))
            env.finish(m, c, ok(resp))
        return f

    def lin_pay(self, m, c):
        raise Unsupported('pay is driven by pay_transitions')

def _keystr(key):
    return '/'.join(sym.show(k[1]) if isinstance(k, tuple) else k for k in key)

def _tokstr(v):
    if v is None:
        return None
    if isinstance(v, Seq):
        if v.tag is not None:
            return _short(v.tag)
        try:
            return bytes(v.items).decode()
        except Exception:
            return repr(v.items)
    return _short(v)

def _short(x):
    if isinstance(x, T):
        return sym.show(x)
    if isinstance(x, tuple):
        return '(' + ', '.join(_short(y) for y in x) + ')'
    if isinstance(x, Adt):
        body = ', '.join(_short(x.fields[k]) for k in sorted(x.fields, key=repr))
        return '%s%s{%s}' % (last_seg(x.ty), ('::' + str(x.variant)) if x.variant else '', body)
    if isinstance(x, Seq):
        return _tokstr(x)
    return repr(x) if not isinstance(x, str) else x

# ----------------------------------------------------------------------------
# invoice parsing: the byte string identifies an Invoice object supplied by the harness
# ----------------------------------------------------------------------------
@I.rx(r'^(core::str::|std::str::)?<impl str>::parse$')
def _str_parse(m, args, ci):
    g = ci.generic_args()
    dty = ci.dest_type(m) or ''
    if 'Bolt11Invoice' in (g[-1] if g else '') or 'Bolt11Invoice' in dty:
        s, a, b = seq_of(args[0])
        key = s.tag if s.tag is not None else bytes(x if isinstance(x, int) else 0 for x in s.items[a:b])
        env = m.st.env
        inv = env.parse_invoice(m, s, a, b) if env is not None and hasattr(env, 'parse_invoice') else None
        if inv is None:
            return err(Opaque('ParseOrSemanticError'))
        return ok(inv)
    raise Unsupported('str::parse::<%s>' % (g,))
