"""Program index: maps callee texts to MIR bodies, closures to bodies, and holds the type
registry (enum variants / struct fields) read from /repo's sources and the pinned crates."""
import os
import re
import glob
from .mir import Program, scan, strip_generics, split_top, find_top
from .machine import norm_callee, type_head, split_path, last_seg, Unsupported
from .values import Adt, Ref, FnItem

REPO = os.environ.get('VERIF_REPO', '/repo')

# ----------------------------------------------------------------------------
# Rust source scanning (items only; no expressions)
# ----------------------------------------------------------------------------
def strip_comments(src):
    out = []
    i = 0
    n = len(src)
    while i < n:
        c = src[i]
        if src.startswith('//', i):
            j = src.find('\n', i)
            j = n if j < 0 else j
            i = j
            continue
        if src.startswith('/*', i):
            j = src.find('*/', i)
            j = n - 2 if j < 0 else j
            out.append(''.join('\n' if ch == '\n' else ' ' for ch in src[i:j + 2]))
            i = j + 2
            continue
        if c == '"':
            j = i + 1
            while j < n and src[j] != '"':
                j += 2 if src[j] == '\\' else 1
            out.append('"' + ''.join('\n' if ch == '\n' else '_' for ch in src[i + 1:j]) + '"')
            i = j + 1
            continue
        out.append(c)
        i += 1
    return ''.join(out)

def _balanced_block(src, open_idx):
    depth = 0
    for i in range(open_idx, len(src)):
        c = src[i]
        if c == '{':
            depth += 1
        elif c == '}':
            depth -= 1
            if depth == 0:
                return i
    return len(src) - 1

def _split_depth0(body, sep=','):
    out = []
    depth = 0
    last = 0
    i = 0
    while i < len(body):
        c = body[i]
        if c in '([{<':
            if c == '<' and i > 0 and body[i - 1] in '-=':
                pass
            else:
                depth += 1
        elif c in ')]}>':
            if c == '>' and i > 0 and body[i - 1] in '-=':
                pass
            else:
                depth -= 1
        elif c == sep and depth == 0:
            out.append(body[last:i])
            last = i + 1
        i += 1
    out.append(body[last:])
    return [x.strip() for x in out if x.strip()]

def _strip_attrs(s):
    # remove #[...] attributes (balanced)
    out = []
    i = 0
    while i < len(s):
        if s[i] == '#' and i + 1 < len(s) and s[i + 1] == '[':
            depth = 0
            j = i + 1
            while j < len(s):
                if s[j] == '[':
                    depth += 1
                elif s[j] == ']':
                    depth -= 1
                    if depth == 0:
                        break
                j += 1
            i = j + 1
            continue
        out.append(s[i])
        i += 1
    return ''.join(out)

class EnumDef:
    def __init__(self, name, path, variants):
        self.name = name
        self.path = path          # module path, e.g. 'store' or 'cln_rpc::model::responses'
        self.variants = variants  # [(name, discr, field_names|None)]
    @property
    def full(self):
        return (self.path + '::' + self.name) if self.path else self.name

class StructDef:
    def __init__(self, name, path, fields):
        self.name = name
        self.path = path
        self.fields = fields      # [field names] (or None for tuple structs)
    @property
    def full(self):
        return (self.path + '::' + self.name) if self.path else self.name

def scan_items(src, modpath):
    """Yield EnumDef / StructDef for every enum/struct item in src (nested modules included,
    their names appended to modpath)."""
    src = strip_comments(src)
    items = []
    modranges = []
    for mm_ in re.finditer(r'\bmod\s+([A-Za-z_]\w*)\s*\{', src):
        modranges.append((mm_.end(), _balanced_block(src, mm_.end() - 1), mm_.group(1)))
    for m in re.finditer(r'\b(pub(?:\([^)]*\))?\s+)?(enum|struct)\s+([A-Za-z_]\w*)', src):
        kind = m.group(2)
        name = m.group(3)
        # determine the module nesting by scanning `mod X {` blocks enclosing m.start()
        sub = [nm for (a, b, nm) in modranges if a <= m.start() <= b]
        path = '::'.join([p for p in [modpath] + sub if p])
        j = m.end()
        # skip generics / where clause up to '{' or '(' or ';'
        depth = 0
        while j < len(src):
            c = src[j]
            if c == '<':
                depth += 1
            elif c == '>' and src[j - 1] != '-':
                depth -= 1
            elif depth == 0 and c in '{(;':
                break
            j += 1
        if j >= len(src):
            continue
        if src[j] == ';':
            items.append(StructDef(name, path, []))
            continue
        if src[j] == '(':
            if kind == 'struct':
                items.append(StructDef(name, path, None))
            continue
        end = _balanced_block(src, j)
        body = _strip_attrs(src[j + 1:end])
        if kind == 'struct':
            fields = []
            for f in _split_depth0(body):
                mm = re.match(r'^(?:pub(?:\([^)]*\))?\s+)?(r#)?([A-Za-z_]\w*)\s*:', f)
                if mm:
                    fields.append(mm.group(2))
            items.append(StructDef(name, path, fields))
        else:
            variants = []
            nxt = 0
            for v in _split_depth0(body):
                mm = re.match(r'^([A-Za-z_]\w*)\s*(.*)$', v, re.S)
                if not mm:
                    continue
                vname = mm.group(1)
                rest = mm.group(2).strip()
                fnames = None
                if rest.startswith('{'):
                    e = _balanced_block(rest, 0)
                    fnames = []
                    for f in _split_depth0(rest[1:e]):
                        m2 = re.match(r'^(?:pub\s+)?([A-Za-z_]\w*)\s*:', f)
                        if m2:
                            fnames.append(m2.group(1))
                    rest = rest[e + 1:].strip()
                elif rest.startswith('('):
                    depth = 0
                    for e, c in enumerate(rest):
                        if c == '(':
                            depth += 1
                        elif c == ')':
                            depth -= 1
                            if depth == 0:
                                break
                    rest = rest[e + 1:].strip()
                m3 = re.match(r'^=\s*(-?\d+)', rest)
                if m3:
                    nxt = int(m3.group(1))
                variants.append((vname, nxt, fnames))
                nxt += 1
            items.append(EnumDef(name, path, variants))
    return items

def _enclosing_mods(src, pos):
    mods = []
    for m in re.finditer(r'\bmod\s+([A-Za-z_]\w*)\s*\{', src):
        if m.start() > pos:
            break
        end = _balanced_block(src, m.end() - 1)
        if m.end() <= pos <= end:
            mods.append(m.group(1))
    return mods

BUILTIN_ENUMS = [
    EnumDef('Option', 'std::option', [('None', 0, None), ('Some', 1, None)]),
    EnumDef('Result', 'std::result', [('Ok', 0, None), ('Err', 1, None)]),
    EnumDef('Poll', 'std::task', [('Ready', 0, None), ('Pending', 1, None)]),
    EnumDef('ControlFlow', 'std::ops', [('Continue', 0, None), ('Break', 1, None)]),
    EnumDef('Ordering', 'std::cmp', [('Less', -1, None), ('Equal', 0, None), ('Greater', 1, None)]),
    EnumDef('Cow', 'std::borrow', [('Borrowed', 0, None), ('Owned', 1, None)]),
    EnumDef('Entry', 'std::collections::hash_map', [('Occupied', 0, None), ('Vacant', 1, None)]),
    EnumDef('MaybeDone', 'tokio::future::maybe_done', [('Future', 0, None), ('Done', 1, None), ('Gone', 2, None)]),
    EnumDef('Infallible', 'std::convert', []),
    EnumDef('Bound', 'std::ops', [('Included', 0, None), ('Excluded', 1, None), ('Unbounded', 2, None)]),
    EnumDef('Value', 'serde_json', [('Null', 0, None), ('Bool', 1, None), ('Number', 2, None), ('String', 3, None),
                                    ('Array', 4, None), ('Object', 5, None)]),
    EnumDef('TryRecvError', 'tokio::sync::oneshot::error', [('Empty', 0, None), ('Closed', 1, None)]),
]

class Registry:
    def __init__(self):
        self.enums = {}       # last name -> [EnumDef]
        self.structs = {}     # last name -> [StructDef]
        for e in BUILTIN_ENUMS:
            self.enums.setdefault(e.name, []).append(e)
    def add_source(self, path, modpath):
        try:
            src = open(path).read()
        except OSError:
            return
        for it in scan_items(src, modpath):
            if isinstance(it, EnumDef):
                self.enums.setdefault(it.name, []).append(it)
            else:
                self.structs.setdefault(it.name, []).append(it)
    def _pick(self, table, head):
        """head: type path as printed (possibly trimmed).  Returns the unique def or None."""
        segs = [s for s in split_path(head) if s]
        if not segs:
            return None
        cands = table.get(segs[-1], [])
        if len(cands) == 1:
            return cands[0]
        if len(cands) > 1 and len(segs) > 1:
            pre = segs[:-1]
            best = [c for c in cands if c.path.split('::')[-len(pre):] == pre]
            if len(best) == 1:
                return best[0]
        if len(cands) > 1:
            # prefer crate-local definition when the printed path is bare
            return None
        return None
    def enum_def(self, head):
        if head.endswith('__tokio_select_util::Out'):
            return self._select_out(head)
        return self._pick(self.enums, head)
    def _select_out(self, head):
        """tokio::select!'s per-use output enum: variants _0.._{N-1}, Disabled (N = BRANCHES const)."""
        cache = self.__dict__.setdefault('_out_cache', {})
        if head in cache:
            return cache[head]
        owner = head[:-len('::__tokio_select_util::Out')]
        n = None
        for k, v in self.__dict__.get('select_branches', {}).items():
            if owner.endswith(k) or k.endswith(owner):
                if len(v) > 1:
                    return None          # several select! in one function: the value carries its own arity (meta)
                n = v[0][1]
        if n is None:
            return None
        e = EnumDef('Out', owner + '::__tokio_select_util', [('_%d' % i, i, None) for i in range(n)] + [('Disabled', n, None)])
        cache[head] = e
        return e
    def struct_def(self, head):
        return self._pick(self.structs, head)
    def canon_enum(self, head):
        e = self.enum_def(head)
        return e.full if e else head
    def canon_struct(self, head):
        s = self.struct_def(head)
        return s.full if s else head
    def enum_of_variant(self, enum_last, variant, head):
        e = self.enum_def(head)
        if e is None:
            # several enums share the printed name (serde_json::Value / options::Value): the variant decides
            segs = [s for s in split_path(head) if s]
            cands = [c for c in self.enums.get(segs[-1], []) if any(v[0] == variant for v in c.variants)] if segs else []
            if len(segs) > 1:
                pre = segs[:-1]
                cands = [c for c in cands if c.path.split('::')[-len(pre):] == pre] or cands
            if len(cands) == 1:
                return cands[0].full
            return None
        for v in e.variants:
            if v[0] == variant:
                return e.full
        return None
    def variant_index(self, ty, variant):
        e = self.enum_def(ty)
        if e is None:
            return None
        for v in e.variants:
            if v[0] == variant:
                return v[1]
        return None
    def variant_name(self, ty, idx):
        e = self.enum_def(ty)
        if e is None:
            return None
        for v in e.variants:
            if v[1] == idx:
                return v[0]
        return None
    def variant_fields(self, ty, variant):
        e = self.enum_def(ty)
        if e is None:
            return None
        for v in e.variants:
            if v[0] == variant:
                return v[2]
        return None
    def struct_fields(self, ty):
        s = self.struct_def(ty)
        return s.fields if s else None

# ----------------------------------------------------------------------------
# impl headers
# ----------------------------------------------------------------------------
_IMPL_AT = re.compile(r'<impl at (src/[\w/]+\.rs):(\d+):(\d+): (\d+):(\d+)>')
_src_cache = {}

def _src_lines(rel):
    if rel not in _src_cache:
        with open(os.path.join(REPO, rel)) as f:
            _src_cache[rel] = f.read().split('\n')
    return _src_cache[rel]

def impl_header(rel, line, col):
    """(trait|None, self type head) of the impl whose span starts at rel:line:col."""
    lines = _src_lines(rel)
    text = lines[line - 1][col - 1:]
    if text.startswith('impl'):
        # gather until '{'
        k = line
        while '{' not in text and k < len(lines):
            text += ' ' + lines[k].strip()
            k += 1
        head = text[:text.index('{')] if '{' in text else text
        head = head[4:].strip()
        if head.startswith('<'):
            depth = 0
            for i, c in enumerate(head):
                if c == '<':
                    depth += 1
                elif c == '>' and head[i - 1] != '-':
                    depth -= 1
                    if depth == 0:
                        head = head[i + 1:].strip()
                        break
        head = re.split(r'\bwhere\b', head)[0].strip()
        m = re.match(r'^(.*?)\s+for\s+(.*)$', head, re.S)
        if m:
            return type_head(m.group(1)), type_head(m.group(2))
        return None, type_head(head)
    # derive: the identifier at that column is the trait; the type is the next struct/enum item
    m = re.match(r'^([A-Za-z_]\w*)', text)
    trait = m.group(1) if m else None
    for k in range(line - 1, min(len(lines), line + 40)):
        mm = re.search(r'\b(?:struct|enum)\s+([A-Za-z_]\w*)', lines[k])
        if mm:
            return trait, mm.group(1)
    return trait, None

# ----------------------------------------------------------------------------
class ProgramIndex:
    def __init__(self, mir_text, registry):
        self.prog = Program(mir_text)
        self.reg = registry
        self.keys = {}           # canonical key -> Body
        self.by_suffix = {}      # last segment -> [(segments, Body)]
        self.consts = {}
        self.children = {}       # parent body name -> [Body]
        for b in self.prog.bodies:
            self._index(b)
        sb = {}
        for k, vs in self.prog.simple_consts.items():
            if k.endswith('::BRANCHES'):
                for ln, v in vs:
                    mm = re.match(r'^(\d+)_u32$', v)
                    if mm:
                        sb.setdefault(norm_callee(k[:-len('::BRANCHES')]), []).append((ln, int(mm.group(1))))
        registry.select_branches = sb

    def _index(self, b):
        name = b.name
        segs = split_path(name)
        # children map (closures / promoted / nested consts)
        if len(segs) > 1:
            parent = '::'.join(segs[:-1])
            self.children.setdefault(parent, []).append(b)
        if b.kind != 'fn':
            self.consts.setdefault(name, b)
            self.consts.setdefault(last_seg(name), b) if re.match(r'^[A-Z_0-9]+$', last_seg(name)) else None
            return
        m = _IMPL_AT.search(name)
        keys = []
        if m:
            try:
                trait, ty = impl_header(m.group(1), int(m.group(2)), int(m.group(3)))
            except (OSError, IndexError):
                trait, ty = None, None
            tail = name[m.end():]           # '::method::{closure#0}'...
            mod = m.group(1)[4:-3].replace('/', '::')
            if mod.endswith('::mod'):
                mod = mod[:-5]
            if mod == 'main':
                mod = ''
            if ty:
                tyl = last_seg(ty)
                if trait:
                    keys.append('<%s as %s>%s' % (tyl, last_seg(trait), tail))
                else:
                    keys.append('%s%s' % (tyl, tail))
                    if mod:
                        keys.append('%s::%s%s' % (mod, tyl, tail))
            b.impl_of = (trait, ty)
        else:
            keys.append(name)
            b.impl_of = None
        for k in keys:
            self.keys.setdefault(k, b)
        ksegs = split_path(keys[-1]) if keys else segs
        self.by_suffix.setdefault(ksegs[-1], []).append((ksegs, b))

    # ---- functions ------------------------------------------------------------------
    def resolve_fn(self, callee_text, machine=None, args=None):
        name = norm_callee(callee_text)
        b = self.keys.get(name)
        if b is not None:
            return b
        segs = split_path(name)
        head = segs[0]
        if head.startswith('<') and ' as ' in head:
            inner = head[1:-1]
            j = find_top(inner, ' as ')
            selfty = inner[:j]
            trait = last_seg(inner[j + 4:])
            if _external(selfty):
                # no crate impl can be meant by name; a crate trait's default method still can
                return self._suffix_lookup(split_path('%s::%s' % (trait, '::'.join(segs[1:]))))
            tail = '::'.join(segs[1:])
            bound = selfty
            if machine is not None and selfty in machine.generic_bindings:
                bound = machine.generic_bindings[selfty]
            if bound.startswith('&'):
                bound_l = bound
            else:
                bound_l = last_seg(bound)
            for cand in ('<%s as %s>::%s' % (bound_l, trait, tail), '<%s as %s>::%s' % (last_seg(bound), trait, tail)):
                b = self.keys.get(cand)
                if b is not None:
                    return b
            # trait default method defined in this crate
            for cand in ('%s::%s' % (trait, tail),):
                hits = self._suffix_lookup(split_path(cand))
                if hits is not None:
                    return hits
            return None
        if head.startswith('<') and head.endswith('>') and ' as ' not in head:
            # inherent method through qualified path  <T>::method
            selfty = last_seg(head[1:-1])
            b = self.keys.get('%s::%s' % (selfty, '::'.join(segs[1:])))
            return b
        return self._suffix_lookup(segs)

    def _suffix_lookup(self, segs):
        cands = self.by_suffix.get(segs[-1], [])
        hits = [b for ks, b in cands if len(ks) >= len(segs) and ks[-len(segs):] == segs]
        if len(hits) == 1:
            return hits[0]
        if not hits:
            # the callee is printed with more module segments than the key carries
            hits = [b for ks, b in cands if len(ks) < len(segs) and segs[-len(ks):] == ks and len(ks) >= 2]
            if len(hits) == 1:
                return hits[0]
            # inherent impls on type aliases (`impl DefaultIntegerConfigOption` printed as `ConfigOption::..`):
            # a method name that only one impl block in the crate defines
            tdef = self.reg.struct_def(segs[-2]) or self.reg.enum_def(segs[-2]) if len(segs) >= 2 else None
            crate_type = tdef is not None and not tdef.path.startswith(('cln_rpc', 'std', 'tokio', 'serde'))
            if len(segs) >= 2 and cands and crate_type:
                names = set(b.name for ks, b in cands)
                if len(names) == 1 and all(getattr(b, 'impl_of', None) is not None and b.impl_of[0] is None for ks, b in cands):
                    return cands[0][1]
            return None
        if len(hits) > 1 and len(set(b.name for b in hits)) == 1:
            return hits[0]
        if len(hits) > 1:
            exact = [b for ks, b in cands if ks == segs]
            if len(exact) == 1:
                return exact[0]
        return None

    # ---- constants --------------------------------------------------------------------
    def simple_const(self, raw, name, body=None):
        """Value text of a one-line const.  Several block-scoped consts may share one printed path (every
        tokio::select! defines its own BRANCHES): the definition closest above the using body is meant."""
        sc = self.prog.simple_consts
        if not sc:
            return None
        cands = sc.get(raw)
        if cands is None and body is not None:
            # consts nested in (closures of) methods are printed with the type path at the use site but with the
            # `<impl at ..>` path at their definition: look the name up under the using body and its ancestors
            leaf = last_seg(name)
            segs = split_path(body.name)
            for k in range(len(segs), 0, -1):
                cands = sc.get('::'.join(segs[:k]) + '::' + leaf)
                if cands is not None:
                    break
        if cands is None:
            for k, v in sc.items():
                if raw.endswith('::' + k) or name.endswith('::' + norm_callee(k)) or norm_callee(k) == name:
                    cands = v
                    break
        if not cands:
            return None
        if len(cands) == 1 or body is None:
            return cands[-1][1] if body is None else cands[0][1]
        above = [c for c in cands if c[0] < body.lineno]
        return (above[-1] if above else cands[0])[1]

    def const_body(self, raw, name, body):
        b = self.consts.get(raw) or self.consts.get(name)
        if b is not None:
            return b
        # promoted[n] of the current body is printed with the (generic) full path of its owner
        m = re.match(r'^(.*)::(promoted\[\d+\])$', raw)
        if m and body is not None:
            cand = body.name + '::' + m.group(2)
            b = self.consts.get(cand)
            if b is not None:
                return b
            # strip generics of the owner path and compare with body names
            owner = norm_callee(m.group(1))
            for nm, cb in self.consts.items():
                if nm.endswith('::' + m.group(2)) and norm_callee(nm[:-(len(m.group(2)) + 2)]).endswith(owner):
                    return cb
        # named consts nested in bodies: COUNT / BRANCHES
        segs = split_path(name)
        if body is not None and re.match(r'^[A-Z_0-9]+$', segs[-1] or ''):
            for cb in self.children.get(body.name, []):
                if last_seg(cb.name) == segs[-1]:
                    return cb
            b = self.consts.get(segs[-1])
            if b is not None:
                return b
        return None

    # ---- closures / coroutines -------------------------------------------------------------
    def closure_body(self, adt):
        head = adt.ty
        if not head.startswith('{'):
            return None
        cache = getattr(self, '_clo_cache', None)
        if cache is None:
            cache = self._clo_cache = {}
        created = adt.meta[1] if isinstance(adt.meta, tuple) and adt.meta and adt.meta[0] == 'created_in' else None
        key = (head, created)
        if key in cache:
            return cache[key]
        res = None
        m = re.match(r'^\{async fn body of (.*)\(\)\}$', head)
        if m:
            fn = m.group(1)
            parent = self.resolve_fn(fn)
            if parent is None and created is not None:
                # the async fn is the creating body itself
                parent = self.prog.get(created)
            elif created is not None:
                pc = self.prog.get(created)
                if pc is not None and last_seg(norm_callee(pc.name)) == last_seg(norm_callee(fn)):
                    parent = pc
            if parent is not None:
                res = self.prog.get(parent.name + '::{closure#0}')
        if res is None and created is not None:
            span = _span_of(head)
            for cb in self.children.get(created, []):
                if cb.kind == 'fn' and cb.params and span in cb.params[0][1]:
                    res = cb
                    break
        if res is None and created is not None and head.startswith('{coroutine'):
            # coroutine literal inside an `async fn`: its body is <fn>::{closure#0} with param `{async fn body of ..}`
            cands = [cb for cb in self.children.get(created, []) if cb.kind == 'fn' and cb.params
                     and 'async fn body of' in cb.params[0][1] and re.search(r'\{closure#\d+\}$', cb.name)]
            if len(cands) == 1:
                res = cands[0]
        if res is None:
            span = _span_of(head)
            hits = [b for b in self.prog.bodies if b.kind == 'fn' and b.params and span in b.params[0][1]
                    and re.search(r'\{closure#\d+\}$', b.name)]
            if len(hits) == 1:
                res = hits[0]
        cache[key] = res
        return res

_EXTERNAL_ROOTS = ('std', 'core', 'alloc', 'tokio', 'tokio_util', 'tokio_stream', 'bytes', 'futures', 'futures_util',
                   'serde', 'serde_json', 'anyhow', 'secp256k1', 'lightning_invoice', 'lightning', 'cln_rpc', 'tracing',
                   'tracing_core', 'tracing_subscriber', 'hex', 'bitcoin', 'bitcoin_hashes', 'aws_sdk_sesv2', 'aws_config',
                   'async_trait', 'log')

def _external(ty):
    t = ty.strip().lstrip('&').strip()
    if t.startswith('mut '):
        t = t[4:]
    segs = split_path(t)
    return len(segs) > 1 and segs[0] in _EXTERNAL_ROOTS

def _span_of(head):
    span = head[1:-1]
    span = span.split('@', 1)[1] if '@' in span else span
    return re.sub(r' \(#\d+\)$', '', span)

def build_registry():
    reg = Registry()
    for path in sorted(glob.glob(os.path.join(REPO, 'src', '**', '*.rs'), recursive=True)):
        rel = os.path.relpath(path, os.path.join(REPO, 'src'))
        mod = rel[:-3].replace('/', '::')
        if mod == 'main':
            mod = ''
        if mod.endswith('::mod'):
            mod = mod[:-5]
        reg.add_source(path, mod)
    # pinned library types the environment constructs / inspects
    cargo_home = os.environ.get('CARGO_HOME', os.path.expanduser('~/.cargo'))
    for pat, mod in (('cln-rpc-0.1.9/src/model.rs', 'cln_rpc::model'),
                     ('cln-rpc-0.1.9/src/lib.rs', 'cln_rpc'),
                     ('cln-rpc-0.1.9/src/primitives.rs', 'cln_rpc::primitives'),
                     ('cln-rpc-0.1.9/src/jsonrpc.rs', 'cln_rpc::jsonrpc')):
        for p in glob.glob(os.path.join(cargo_home, 'registry', 'src', '*', pat)):
            reg.add_source(p, mod)
    return reg
