"""bytes 1.6 contracts: Buf for &[u8] / Bytes / Take<Bytes>, BufMut for BytesMut.

Documented behaviour modelled, including the panics: get_u8/u16/u32/u64, advance and
copy_to_bytes panic when fewer bytes remain than requested (`panic_advance`);
Take::into_inner returns the *unlimited* inner buffer.
"""
import re
from . import sym
from .sym import T
from .values import Adt, Ref, Seq, Slice, Cell, Opaque, unit
from .machine import Unsupported, Panic, _SliceRef, last_seg
from .intrinsics import I, some, none, ok, err, tuple_, deref_val, clone_value
from .lib_std import seq_of, elems_of

class BytesBuf:
    """bytes::Bytes / BytesMut: a window into a backing Seq.  Bytes windows share the backing
    store (cheap clones); BytesMut owns it (append at the end)."""
    def __init__(self, items, kind='Bytes'):
        self.seq = items if isinstance(items, Seq) else Seq(list(items), 'bytes')
        self.start = 0
        self.end = len(self.seq.items)
        self.kind = kind
    def as_seq(self):
        return self.seq, self.start, self.end
    def remaining(self):
        return self.end - self.start
    def clone_hook(self, m):
        b = BytesBuf(self.seq if self.kind == 'Bytes' else Seq(list(self.seq.items), 'bytes'), self.kind)
        b.start, b.end = self.start, self.end
        return b
    def eq_hook(self, m, other):
        from .lib_std import value_eq
        return value_eq(m, Slice(self.seq, self.start, self.end), other if not isinstance(other, BytesBuf)
                        else Slice(other.seq, other.start, other.end))
    def __repr__(self):
        return '%s%r' % (self.kind, self.seq.items[self.start:self.end])

class TakeBuf:
    def __init__(self, inner, limit):
        self.inner = inner
        self.limit = limit
    def remaining(self):
        r = self.inner.remaining()
        return r if r < self.limit else self.limit

# ---- cursor abstraction over the three Buf implementors ------------------------------
class Cursor:
    """Uniform view: remaining(), peek(k), advance(n) over `&mut &[u8]`, `&mut Bytes`, `&mut Take<Bytes>`."""
    def __init__(self, m, selfref):
        v = selfref.get() if isinstance(selfref, Ref) and not isinstance(selfref, _SliceRef) else selfref
        while isinstance(v, Ref) and not isinstance(v, _SliceRef):     # impl Buf for &mut T
            selfref = v
            v = v.get()
        self.ref = selfref
        self.v = v
        if isinstance(v, Slice):
            self.kind = 'slice'
        elif isinstance(v, BytesBuf):
            self.kind = 'bytes'
        elif isinstance(v, TakeBuf):
            self.kind = 'take'
        else:
            raise Unsupported('Buf on %r' % (v,))
    def remaining(self):
        if self.kind == 'slice':
            return len(self.v)
        return self.v.remaining()
    def _win(self):
        if self.kind == 'slice':
            return self.v.seq, self.v.start
        if self.kind == 'bytes':
            return self.v.seq, self.v.start
        return self.v.inner.seq, self.v.inner.start
    def peek(self, k):
        seq, st = self._win()
        return seq.items[st + k]
    def advance(self, n):
        if n > self.remaining():
            raise Panic('advance out of bounds: the len is %d but advancing by %d' % (self.remaining(), n))
        if self.kind == 'slice':
            self.ref.set(Slice(self.v.seq, self.v.start + n, self.v.end))
        elif self.kind == 'bytes':
            self.v.start += n
        else:
            self.v.inner.start += n
            self.v.limit -= n

_BUF = r'^<(&mut )?(&\[u8\]|&mut \[u8\]|bytes::Bytes|Bytes|bytes::BytesMut|BytesMut|bytes::buf::Take|Take|Self|T|B) as (bytes::)?Buf>::'

@I.rx(_BUF + r'remaining$')
def _remaining(m, args, ci):
    return Cursor(m, args[0]).remaining()

@I.rx(_BUF + r'has_remaining$')
def _has_remaining(m, args, ci):
    return Cursor(m, args[0]).remaining() > 0

@I.rx(_BUF + r'chunk$')
def _chunk(m, args, ci):
    c = Cursor(m, args[0])
    seq, st = c._win()
    return Slice(seq, st, st + c.remaining())

@I.rx(_BUF + r'advance$')
def _advance(m, args, ci):
    n = args[1]
    c = Cursor(m, args[0])
    if isinstance(n, T):
        n = m.concretize(n, 0, c.remaining() + 1, 'Buf::advance')
    c.advance(n)
    return unit()

def _get_be(m, args, nbytes, signed=False):
    c = Cursor(m, args[0])
    if c.remaining() < nbytes:
        raise Panic('advance out of bounds: the len is %d but advancing by %d' % (c.remaining(), nbytes))
    v = 0
    for k in range(nbytes):
        v = sym.add(sym.mul(v, 256), c.peek(k))
    c.advance(nbytes)
    return v

@I.rx(_BUF + r'get_u8$')
def _get_u8(m, args, ci):
    return _get_be(m, args, 1)

@I.rx(_BUF + r'get_u16$')
def _get_u16(m, args, ci):
    return _get_be(m, args, 2)

@I.rx(_BUF + r'get_u32$')
def _get_u32(m, args, ci):
    return _get_be(m, args, 4)

@I.rx(_BUF + r'get_u64$')
def _get_u64(m, args, ci):
    return _get_be(m, args, 8)

def _try_get(m, args, nbytes):
    c = Cursor(m, args[0])
    if c.remaining() < nbytes:
        return err(Adt('bytes::TryGetError', None, {0: nbytes, 1: c.remaining()}, ['requested', 'available']))
    return ok(_get_be(m, args, nbytes))

@I.rx(_BUF + r'try_get_u8$')
def _try_get_u8(m, args, ci):
    return _try_get(m, args, 1)

@I.rx(_BUF + r'try_get_u16$')
def _try_get_u16(m, args, ci):
    return _try_get(m, args, 2)

@I.rx(_BUF + r'try_get_u32$')
def _try_get_u32(m, args, ci):
    return _try_get(m, args, 4)

@I.rx(_BUF + r'try_get_u64$')
def _try_get_u64(m, args, ci):
    return _try_get(m, args, 8)

@I.rx(_BUF + r'copy_to_bytes$')
def _copy_to_bytes(m, args, ci):
    c = Cursor(m, args[0])
    n = args[1]
    if isinstance(n, T):
        n = m.concretize(n, 0, c.remaining() + 1, 'copy_to_bytes')
    if n > c.remaining():
        raise Panic('advance out of bounds: the len is %d but advancing by %d' % (c.remaining(), n))
    out = BytesBuf([c.peek(k) for k in range(n)])
    c.advance(n)
    return out

@I.rx(_BUF + r'copy_to_slice$')
def _copy_to_slice(m, args, ci):
    c = Cursor(m, args[0])
    s, a, b = seq_of(args[1])
    n = b - a
    if n > c.remaining():
        raise Panic('advance out of bounds: the len is %d but advancing by %d' % (c.remaining(), n))
    for k in range(n):
        s.items[a + k] = c.peek(k)
    c.advance(n)
    return unit()

@I.rx(_BUF + r'take$')
def _take(m, args, ci):
    lim = args[1]
    inner = args[0]
    if not isinstance(inner, BytesBuf):
        raise Unsupported('Buf::take on %r' % (inner,))
    if isinstance(lim, T):
        # only min(limit, remaining) is observable: fork on limit < remaining
        r = inner.remaining()
        if m.branch(sym.lt(lim, r), 'take.limit<remaining'):
            lim = m.concretize(lim, 0, r, 'take.limit')
        else:
            lim = r
    return TakeBuf(inner, lim)

@I.rx(r'^(bytes::buf::)?Take::into_inner$')
def _take_into_inner(m, args, ci):
    return args[0].inner

@I.rx(r'^(bytes::buf::)?Take::(get_ref|get_mut)$')
def _take_get_ref(m, args, ci):
    t = deref_val(args[0])
    return Ref(Cell(t.inner), 'v')

@I.rx(r'^(bytes::buf::)?Take::limit$')
def _take_limit(m, args, ci):
    return deref_val(args[0]).limit

# ---- Bytes ---------------------------------------------------------------------------
@I.rx(r'^(bytes::)?Bytes::(is_empty)$|^(bytes::)?BytesMut::is_empty$')
def _bytes_is_empty(m, args, ci):
    return deref_val(args[0]).remaining() == 0

@I.rx(r'^(bytes::)?Bytes::len$|^(bytes::)?BytesMut::len$')
def _bytes_len(m, args, ci):
    return deref_val(args[0]).remaining()

@I.rx(r'^(bytes::)?Bytes::new$')
def _bytes_new(m, args, ci):
    return BytesBuf([])

@I.rx(r'^(bytes::)?Bytes::(copy_from_slice|from_static)$')
def _bytes_copy_from_slice(m, args, ci):
    return BytesBuf(list(elems_of(args[0])))

@I.rx(r'^<(bytes::)?(Bytes|BytesMut) as (Deref|DerefMut|AsRef|Borrow)>::(deref|deref_mut|as_ref|borrow)$')
def _bytes_deref(m, args, ci):
    b = deref_val(args[0])
    return Slice(b.seq, b.start, b.end)

@I.rx(r'^<(bytes::)?Bytes as From>::from$')
def _bytes_from_vec(m, args, ci):
    return BytesBuf(list(args[0].items))

@I.rx(r'^<(bytes::)?Bytes as Into>::into$|^(bytes::)?Bytes::to_vec$')
def _vec_from_bytes(m, args, ci):
    b = deref_val(args[0])
    return Seq(b.seq.items[b.start:b.end], 'vec')

@I.rx(r'^(bytes::)?Bytes::(slice)$')
def _bytes_slice(m, args, ci):
    from .lib_std import _range_bounds
    b = deref_val(args[0])
    lo, hi = _range_bounds(m, args[1], b.remaining())
    out = BytesBuf(b.seq)
    out.start, out.end = b.start + lo, b.start + hi
    return out

@I.rx(r'^(bytes::)?(Bytes|BytesMut)::split_to$')
def _split_to(m, args, ci):
    b = deref_val(args[0])
    n = args[1]
    if isinstance(n, T):
        n = m.concretize(n, 0, b.remaining() + 1, 'split_to')
    if n > b.remaining():
        raise Panic('split_to out of bounds: %d <= %d' % (n, b.remaining()))
    if b.kind == 'BytesMut':
        out = BytesBuf(b.seq.items[b.start:b.start + n], 'BytesMut')
        del b.seq.items[b.start:b.start + n]
        b.end = len(b.seq.items)
        return out
    out = BytesBuf(b.seq)
    out.start, out.end = b.start, b.start + n
    b.start += n
    return out

@I.rx(r'^(bytes::)?(Bytes|BytesMut)::split_off$')
def _split_off(m, args, ci):
    b = deref_val(args[0])
    n = args[1]
    if isinstance(n, T):
        n = m.concretize(n, 0, b.remaining() + 1, 'split_off')
    if n > b.remaining():
        raise Panic('split_off out of bounds: %d <= %d' % (n, b.remaining()))
    if b.kind == 'BytesMut':
        out = BytesBuf(b.seq.items[b.start + n:b.end], 'BytesMut')
        del b.seq.items[b.start + n:]
        b.end = len(b.seq.items)
        return out
    out = BytesBuf(b.seq)
    out.start, out.end = b.start + n, b.end
    b.end = b.start + n
    return out

# ---- BytesMut / BufMut ------------------------------------------------------------------
@I.rx(r'^(bytes::)?BytesMut::(new|with_capacity)$|^<(bytes::)?BytesMut as Default>::default$')
def _bm_new(m, args, ci):
    return BytesBuf([], 'BytesMut')

def _bm(args):
    b = deref_val(args[0])
    if not isinstance(b, BytesBuf) or b.kind != 'BytesMut':
        raise Unsupported('BufMut on %r' % (b,))
    return b

def _bm_append(b, xs):
    if b.end != len(b.seq.items):
        raise Unsupported('BytesMut append on a split buffer')
    b.seq.items.extend(xs)
    b.end = len(b.seq.items)

_BUFMUT = r'^<(bytes::)?(BytesMut|Self|T|B) as (bytes::)?BufMut>::'

def _be_bytes(m, v, n):
    if isinstance(v, T):
        bs = [m.fresh('pb') for _ in range(n)]
        total = 0
        for b in bs:
            m.pc.append(sym.and_(sym.le(0, b), sym.le(b, 255)))
            total = sym.add(sym.mul(total, 256), b)
        m.pc.append(sym.eq(total, v))
        return bs
    return list((v % (1 << (8 * n))).to_bytes(n, 'big'))

@I.rx(_BUFMUT + r'put_u8$')
def _put_u8(m, args, ci):
    _bm_append(_bm(args), [args[1]])
    return unit()

@I.rx(_BUFMUT + r'put_u16$')
def _put_u16(m, args, ci):
    _bm_append(_bm(args), _be_bytes(m, args[1], 2))
    return unit()

@I.rx(_BUFMUT + r'put_u32$')
def _put_u32(m, args, ci):
    _bm_append(_bm(args), _be_bytes(m, args[1], 4))
    return unit()

@I.rx(_BUFMUT + r'put_u64$')
def _put_u64(m, args, ci):
    _bm_append(_bm(args), _be_bytes(m, args[1], 8))
    return unit()

@I.rx(_BUFMUT + r'(put|put_slice)$')
def _put(m, args, ci):
    src = args[1]
    if isinstance(src, (BytesBuf,)):
        xs = src.seq.items[src.start:src.end]
    else:
        xs = elems_of(src)
    _bm_append(_bm(args), list(xs))
    return unit()

@I.rx(r'^(bytes::)?BytesMut::(extend_from_slice)$')
def _bm_extend(m, args, ci):
    _bm_append(_bm(args), list(elems_of(args[1])))
    return unit()

@I.rx(r'^(bytes::)?BytesMut::(reserve)$')
def _bm_reserve(m, args, ci):
    return unit()

@I.rx(r'^(bytes::)?BytesMut::freeze$')
def _bm_freeze(m, args, ci):
    b = args[0]
    return BytesBuf(b.seq.items[b.start:b.end])

@I.rx(r'^(bytes::)?BytesMut::(clear)$')
def _bm_clear(m, args, ci):
    b = _bm(args)
    del b.seq.items[:]
    b.start = b.end = 0
    return unit()

@I.rx(r'^(bytes::)?BytesMut::(iter)$|^(bytes::)?Bytes::(iter)$')
def _bm_iter(m, args, ci):
    from .lib_std import SliceIter
    b = deref_val(args[0])
    return SliceIter(b.seq, b.start, b.end, by_ref=True)

# generic AsRef<[u8]> on whatever the caller passed (from_bytes<T: AsRef<[u8]>>)
@I.rx(r'^<(T|Self) as AsRef>::as_ref$')
def _generic_as_ref(m, args, ci):
    v = args[0]
    t = v.get() if isinstance(v, Ref) and not isinstance(v, _SliceRef) else v
    if isinstance(t, BytesBuf):
        return Slice(t.seq, t.start, t.end)
    if isinstance(t, Slice):
        return t
    s, a, b = seq_of(t)
    return Slice(s, a, b)

@I.rx(r'^(bytes::)?BytesMut::unsplit$')
def _bm_unsplit(m, args, ci):
    b = _bm(args)
    o = args[1]
    _bm_append(b, list(o.seq.items[o.start:o.end]))
    return unit()

@I.rx(r'^(bytes::)?BytesMut::(split|split_off)$')
def _bm_split_all(m, args, ci):
    b = _bm(args)
    if ci.name.endswith('split_off'):
        return _split_off(m, args, ci)
    out = BytesBuf(b.seq.items[b.start:b.end], 'BytesMut')
    del b.seq.items[b.start:]
    b.end = len(b.seq.items)
    return out

@I.rx(r'^(bytes::)?BytesMut::advance$|^<(bytes::)?BytesMut as (bytes::)?Buf>::advance$')
def _bm_advance(m, args, ci):
    b = _bm(args)
    n = args[1]
    if isinstance(n, T):
        n = m.concretize(n, 0, b.remaining() + 1, 'BytesMut::advance')
    if n > b.remaining():
        raise Panic('cannot advance past `remaining`: %d <= %d' % (n, b.remaining()))
    del b.seq.items[b.start:b.start + n]
    b.end = len(b.seq.items)
    return unit()
