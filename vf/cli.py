"""./check entry point."""
import os
import sys
import argparse
import importlib
import traceback

def main():
    ap = argparse.ArgumentParser()
    ap.add_argument('pid')
    ap.add_argument('--tier', default=os.environ.get('VERIF_TIER', 'quick'), choices=['quick', 'thorough'])
    ap.add_argument('--replay', default=None)
    ap.add_argument('--part', default=None, help='run only one sub-harness (debugging)')
    ap.add_argument('--trace', action='store_true')
    a = ap.parse_args()
    seed = int(os.environ.get('VERIF_SEED', '0') or 0)
    pid = a.pid.upper()
    try:
        mod = importlib.import_module('vf.props.' + pid.lower())
    except ImportError as e:
        print('INCONCLUSIVE property=%s reason=no harness module (%s)' % (pid, e))
        sys.exit(2)
    from .harness import Inconclusive
    try:
        if a.replay:
            sys.exit(mod.replay_cex(a.replay))
        mod.main(a.tier, seed, a)
    except Inconclusive as e:
        print('INCONCLUSIVE property=%s reason=%s' % (pid, str(e).replace('\n', ' | ')[:1500]))
        sys.exit(2)
    except SystemExit:
        raise
    except Exception as e:
        traceback.print_exc()
        print('INCONCLUSIVE property=%s reason=internal error %s: %s' % (pid, type(e).__name__, str(e)[:500]))
        sys.exit(2)

if __name__ == '__main__':
    main()
