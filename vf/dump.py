"""MIR dump of /repo's current working tree (cached by content hash; never writes into /repo)."""
import os
import glob
import fcntl
import hashlib
import subprocess
import time

REPO = os.environ.get('VERIF_REPO', '/repo')
VERIF = os.path.dirname(os.path.dirname(os.path.abspath(__file__)))
CACHE = os.path.join(VERIF, 'cache')

class BuildError(Exception):
    pass

def repo_hash():
    h = hashlib.sha256()
    files = sorted(glob.glob(os.path.join(REPO, 'src', '**', '*.rs'), recursive=True))
    files += [os.path.join(REPO, 'Cargo.toml'), os.path.join(REPO, 'Cargo.lock')]
    for f in files:
        h.update(os.path.relpath(f, REPO).encode())
        h.update(b'\0')
        try:
            with open(f, 'rb') as fh:
                h.update(fh.read())
        except OSError:
            pass
        h.update(b'\0')
    return h.hexdigest()[:20]

def get_mir(overflow='on'):
    """Return (text, path, seconds, cached) for the MIR of the bin target with overflow checks on/off."""
    os.makedirs(CACHE, exist_ok=True)
    hh = repo_hash()
    path = os.path.join(CACHE, 'mir-%s-%s.txt' % (hh, overflow))
    t0 = time.time()
    lock = open(os.path.join(CACHE, 'dump.lock'), 'w')
    fcntl.flock(lock, fcntl.LOCK_EX)
    try:
        if os.path.exists(path) and os.path.getsize(path) > 0:
            with open(path) as f:
                return f.read(), path, time.time() - t0, True
        env = dict(os.environ)
        env['CARGO_TARGET_DIR'] = os.path.join(CACHE, 'target-nightly')
        env['CARGO_NET_OFFLINE'] = 'true'
        env.pop('RUSTFLAGS', None)
        cmd = ['cargo', '+nightly', 'rustc', '--offline', '--manifest-path', os.path.join(REPO, 'Cargo.toml'),
               '--bin', 'trampoline', '--', '-Zunpretty=mir', '-C', 'debug-assertions=off',
               '-C', 'overflow-checks=' + overflow, '--cfg', 'verif_nonce="%s%s"' % (hh, overflow)]
        p = subprocess.run(cmd, cwd=REPO, env=env, stdout=subprocess.PIPE, stderr=subprocess.PIPE, text=True)
        if p.returncode != 0 or not p.stdout.strip():
            raise BuildError('MIR dump failed (exit %d):\n%s' % (p.returncode, p.stderr[-3000:]))
        tmp = path + '.tmp%d' % os.getpid()
        with open(tmp, 'w') as f:
            f.write(p.stdout)
        os.replace(tmp, path)
        # keep the cache small: drop dumps of other trees older than a day, keep at most 12
        olds = sorted(glob.glob(os.path.join(CACHE, 'mir-*.txt')), key=os.path.getmtime)
        for o in olds[:-12]:
            try:
                os.remove(o)
            except OSError:
                pass
        return p.stdout, path, time.time() - t0, False
    finally:
        fcntl.flock(lock, fcntl.LOCK_UN)
        lock.close()
