"""C17 — wire protocol: any chunking decodes each request once; one response per id; writes are not interleaved."""
import json
import itertools
from .. import sym, replay
from ..sym import T
from ..values import Adt, Ref, Seq, Slice, Cell
from ..machine import explore, Panic
from ..harness import ctx, Report, finish, save_cex, match_known
from ..intrinsics import is_variant
from .. import lib_std, lib_bytes, lib_tokio
from ..lib_bytes import BytesBuf

PID = 'C17'

def ref_frames(data):
    """One-shot reference decoding of a concrete byte string: (frames, leftover, error?)."""
    frames = []
    buf = bytes(data)
    while True:
        k = buf.find(b'\n\n')
        if k < 0:
            return frames, buf, False
        f = buf[:k]
        try:
            f.decode('utf-8')
        except UnicodeDecodeError:
            return frames, buf[k + 2:], True
        frames.append(f)
        buf = buf[k + 2:]

def codec_chunking(rep, c, nbytes, max_splits, alphabet_note):
    """The real MultiLineCodec::decode driven like FramedRead drives it: append a chunk, call decode until it
    returns None.  Symbolic stream; every split of it into <= max_splits+1 chunks."""
    dec = c.body('<MultiLineCodec as Decoder>::decode')
    mkdefault = c.body('<MultiLineCodec as Default>::default')
    xs = [sym.var('s%d' % i) for i in range(nbytes)]
    # bytes range over a small alphabet that contains everything the decoder distinguishes: newline, ASCII,
    # a two-byte UTF-8 sequence (lead, continuation) and an invalid byte
    alpha = (10, 120, 0xc3, 0xa9, 0xff)
    dom = [sym.or_(*[sym.eq(x, a) for a in alpha]) for x in xs]
    stats = {'paths': 0, 'splits': 0}
    for nsplit in range(0, max_splits + 1):
        for cuts in itertools.combinations(range(1, nbytes), nsplit):
            stats['splits'] += 1
            bounds = [0] + list(cuts) + [nbytes]
            chunks = [xs[bounds[i]:bounds[i + 1]] for i in range(len(bounds) - 1)]
            def mk(ch):
                m = c.machine(ch)
                m.pc.extend(dom)
                m.loop_bound = 4 * nbytes + 16
                return m
            def run(m):
                codec = m.call_body(mkdefault, [])        # the codec's own Default impl (it may carry state)
                cref = Ref(Cell(codec), 'v')
                buf = BytesBuf([], 'BytesMut')
                bref = Ref(Cell(buf), 'v')
                frames = []
                errored = False
                for chv in chunks:
                    buf.seq.items.extend(chv)
                    buf.end = len(buf.seq.items)
                    while True:
                        before = list(buf.seq.items[buf.start:buf.end])
                        r = m.call_body(dec, [cref, bref])
                        if r.variant == 'Err':
                            errored = True
                            break
                        o = r.fields[0]
                        if o.variant == 'None':
                            after = list(buf.seq.items[buf.start:buf.end])
                            if len(after) != len(before) or any(a is not b and a != b for a, b in zip(after, before)):
                                raise Panic('decode returned None but changed the buffer')
                            break
                        s = o.fields[0]
                        frames.append(list(s.items))
                    if errored:
                        break
                return frames, list(buf.seq.items[buf.start:buf.end]), errored
            for res in explore(mk, run, order_seed=rep.seed):
                m = res.machine
                rep.paths += 1
                stats['paths'] += 1
                rep.note_machine(m)
                rep.outcomes[res.outcome] = rep.outcomes.get(res.outcome, 0) + 1
                if res.outcome == 'infeasible':
                    continue
                if res.outcome in ('unsupported', 'bound'):
                    rep.inconclusive.append('codec[%d bytes, cuts %s]: %s' % (nbytes, cuts, res.error))
                    if len(rep.inconclusive) > 5:
                        return stats
                    continue
                mdl = c.solver.model(m.pc)
                data = bytes(mdl.get('s%d' % i, 120) for i in range(nbytes))
                exp_frames, exp_left, exp_err = ref_frames(data)
                if res.outcome == 'panic':
                    good = False
                    got = 'panic: ' + str(res.error.msg)
                else:
                    frames, left, err = res.value
                    gf = [bytes(int(sym.evaluate(b, mdl)) if isinstance(b, T) else b for b in f) for f in frames]
                    gl = bytes(int(sym.evaluate(b, mdl)) if isinstance(b, T) else b for b in left)
                    good = gf == exp_frames and err == exp_err and (err or gl == exp_left)
                    got = {'frames': [f.hex() for f in gf], 'left': gl.hex(), 'error': err}
                rep.oblige(good)
                rep.nontrivial.add(('codec', nbytes, cuts, tuple(res.trace)))
                if len(rep.samples) < 8 and exp_frames:
                    rep.sample({'harness': 'codec chunking', 'stream': data.hex(), 'cuts': list(cuts), 'frames': [f.hex() for f in exp_frames]})
                if not good:
                    report_codec(rep, data, list(cuts), got, exp_frames, exp_left, exp_err)
                    return stats
    return stats

def report_codec(rep, data, cuts, got, exp_frames, exp_left, exp_err):
    nat = replay.run('codec', {'stream': data.hex(), 'cuts': cuts})
    ok_native = nat.get('outcome') == 'ok' and nat.get('frames') == [f.hex() for f in exp_frames] and bool(nat.get('error')) == exp_err
    cex = {'property': PID, 'harness': 'codec chunking', 'stream': data.hex(), 'cuts': cuts, 'mirsym': got,
           'expected': {'frames': [f.hex() for f in exp_frames], 'left': exp_left.hex(), 'error': exp_err}, 'native': nat, 'replay_kind': 'codec',
           'input': {'stream': data.hex(), 'cuts': cuts}}
    path = save_cex(PID, cex)
    if not ok_native:
        rep.violations.append({'replay': path, 'role': 'codec.decode',
                               'summary': 'stream %s split at %s decodes to %s natively, one-shot decoding gives %s' % (
                                   data.hex(), cuts, nat.get('frames'), [f.hex() for f in exp_frames])})
    else:
        rep.inconclusive.append('codec counterexample did not reproduce natively: ' + path)

def codec_encode(rep, c, n):
    enc = c.body('<MultiLineCodec as Encoder>::encode')
    xs = [sym.var('e%d' % i) for i in range(n)]
    dom = [sym.and_(sym.le(0, x), sym.le(x, 255)) for x in xs]
    pre = [sym.var('p0'), sym.var('p1')]
    def mk(ch):
        m = c.machine(ch)
        m.pc.extend(dom)
        return m
    def run(m):
        codec = m.call_body(c.body('<MultiLineCodec as Default>::default'), [])
        buf = BytesBuf(list(pre), 'BytesMut')
        r = m.call_body(enc, [Ref(Cell(codec), 'v'), Slice(Seq(list(xs), 'str')), Ref(Cell(buf), 'v')])
        return r, list(buf.seq.items[buf.start:buf.end])
    for res in explore(mk, run, order_seed=rep.seed):
        rep.paths += 1
        rep.note_machine(res.machine)
        if res.outcome != 'ok':
            rep.inconclusive.append('encode: %s %s' % (res.outcome, res.error))
            continue
        r, out = res.value
        exp = pre + xs + [10, 10]
        good = r.variant == 'Ok' and len(out) == len(exp) and all((a is b) or a == b for a, b in zip(out, exp))
        rep.oblige(good)
        rep.nontrivial.add(('encode', n))
        if not good:
            path = save_cex(PID, {'harness': 'encode', 'out': repr(out)[:300]})
            rep.violations.append({'replay': path, 'role': 'codec.encode', 'summary': 'encode does not append exactly line + two newlines'})

def main(tier, seed, args):
    rep = Report(PID, tier, seed, 'model_checking')
    c = ctx('on')
    nbytes, splits = (7, 2) if tier == 'quick' else (9, 3)
    rep.bounds = {'stream_bytes': nbytes, 'split_points': splits, 'alphabet': 'newline, ASCII, 2-byte UTF-8 lead and continuation, invalid byte 0xff',
                  'driver': 'PluginDriver::run + dispatch_one + logging::start_writer from MIR: 2 concurrent requests (3 thorough) with handlers completing in every order with Ok or Err, 1 (2) concurrent log entries, the sink send suspended between feed and flush',
                  'outside': 'longer streams; more concurrent requests; JSON text serialisation itself (serde_json, FramedWrite/JsonCodec are contracts: one document per feed); notifications / subscriptions / setconfig dispatch arms'}
    rep.assumptions = ['tokio-util FramedRead contract: append what was read, call decode until it returns None', 'bytes BytesMut contract (split_to, deref, put)',
                       'FramedWrite sink contract: feed appends one whole document, flush hands the buffer over, send = feed; flush with a possible suspension in between',
                       'registered callbacks are environment futures that complete in any order with Ok(value) or Err']
    rep.trusted = ['mirsym', 'z3', 'bytes/std contracts']
    part = getattr(args, 'part', None)
    for n in range(2, (nbytes + 1) if part != 'driver' else 2):
        st = codec_chunking(rep, c, n, min(splits, n - 1), '')
        rep.parts['codec_chunking[%d bytes]' % n] = st
        if rep.violations or len(rep.inconclusive) > 5:
            break
    codec_encode(rep, c, 3)
    if not rep.violations:
        driver_part(rep, c, tier)
    rep.states = len(rep.nontrivial)
    rep.transitions = rep.paths
    finish(rep, [c], './check C17 --tier ' + tier)

def replay_cex(path):
    cex = json.load(open(path))
    nat = replay.run('codec', cex['input'])
    print(json.dumps(nat, indent=1))
    exp = cex['expected']
    if nat.get('frames') != exp['frames'] or bool(nat.get('error')) != exp['error']:
        print('VIOLATION property=%s replay=%s' % (PID, path))
        return 1
    return 0

# =====================================================================================================
# clauses (b) one reply per request id and (c) non-interleaved writes: the real driver loop
# =====================================================================================================
from ..sched import Explorer, Violation
from ..machine import Unsupported
from ..lib_tokio import TMutex, Chan, MpscSender, MpscReceiver
from ..lib_std import HMap
from .. import lib_json
from ..lib_json import InStream, OutSink, Callback, jobject, jnumber, jstring, jnull
from ..env_node import NodeEnv
from ..values import Opaque, unit
from ..intrinsics import ok as _ok, err as _err
from .c20 import arc, run_explorer

class DriverEnv(NodeEnv):
    def __init__(self):
        NodeEnv.__init__(self)
        self.handlers = []
        self.handler_args = []

class DriverHarness:
    """PluginDriver::run with k requests for a registered method arriving in any interleaving with the completion
    (in any order, Ok or Err) of their handlers, plus log entries written concurrently through logging::start_writer."""
    max_polls = 200
    stop_on_first_violation = False
    max_violations = 8
    def __init__(self, c, nreq, nlogs, spurious, outcomes=('ok', 'err')):
        self.c = c
        self.nreq = nreq
        self.nlogs = nlogs
        self.spurious = spurious
        self.outcomes = outcomes
        # burst shape: every request is on the wire before the first handler finishes, handlers finish in arrival order
        self.burst = nreq >= 5
    def configure(self, m):
        m.generic_bindings = {}
    def init(self, m):
        st = m.st
        env = DriverEnv()
        st.env = env
        st.sched.spurious = self.spurious
        st.sched.rng_free = True
        ch = Chan(4, 'replies')
        st.channels.append(ch)
        sink = OutSink('output')
        omx = TMutex(sink, 'output')
        st.mutexes.append(omx)
        inp = InStream()
        cfgn = m.reg.struct_fields('Configuration')
        configuration = Adt('cln_plugin::messages::Configuration', None,
                            {i: (Seq([], 'str', tag=n) if n in ('rpc_file', 'lightning_dir', 'network') else (False if n == 'startup' else (HMap() if n == 'feature_set' else lib_json.none())))
                             for i, n in enumerate(cfgn)}, list(cfgn))
        plugin = Adt('cln_plugin::Plugin', None, {0: unit(), 1: HMap(), 2: arc(Opaque('option_values')), 3: configuration,
                                                  4: Opaque('broadcast::Sender'), 5: MpscSender(ch)},
                     ['state', 'options', 'option_values', 'configuration', 'wait_handle', 'sender'])
        methods = HMap()
        from ..machine import make_box
        methods.entries.append([Seq(list(b'htlc_accepted'), 'str'), Cell(make_box(Callback('htlc_accepted')))])
        driver = Adt('cln_plugin::PluginDriver', None, {0: plugin, 1: methods, 2: lib_json.none(), 3: HMap(), 4: HMap(), 5: lib_json.none()},
                     ['plugin', 'rpcmethods', 'setconfig_callback', 'hooks', 'subscriptions', 'wildcard_subscription'])
        run = self.c.body('PluginDriver::run')
        fut = m.call_body(run, [driver, MpscReceiver(ch), inp, arc(omx)])
        st.sched.new_task('driver', fut)
        st.roots.update({'sink': sink, 'input': inp, 'fed': 0, 'logs': 0, 'omx': omx, 'logtx': None})
        if self.nlogs:
            sw = self.c.body('logging::start_writer')
            tx = m.call_body(sw, [arc(omx)])
            st.roots['logtx'] = tx
    def env_transitions(self, m):
        st = m.st
        out = []
        if st.roots['fed'] < self.nreq:
            def feed(m):
                st = m.st
                k = st.roots['fed']
                st.roots['fed'] = k + 1
                req = jobject([('jsonrpc', jstring(Seq(list(b'2.0'), 'str'))), ('id', jnumber(sym.var('id%d' % k))),
                               ('method', jstring(Seq(list(b'htlc_accepted'), 'str'))), ('params', jnumber(sym.var('p%d' % k)))])
                msg = Adt('cln_plugin::messages::JsonRpc', 'CustomRequest', {0: jnumber(sym.var('id%d' % k)), 1: req})
                inp = st.roots['input']
                inp.q.append(msg)
                m.event('request_fed', k)
                st.sched.wake(inp.waiters)
            out.append(('feed request', feed))
        pend = [h for h in st.env.handlers if h.result is None]
        if self.burst:
            pend = pend[:1] if st.roots['fed'] >= self.nreq else []
        for h in pend:
            if h.result is None:
                for oc in self.outcomes:
                    def done(m, hid=h.hid, oc=oc):
                        hh = m.st.env.handlers[hid]
                        hh.result = _ok(jnumber(sym.var('r%d' % hid))) if oc == 'ok' else _err(Opaque('anyhow', 'handler error'))
                        m.event('handler_done', hid, oc)
                        m.st.sched.wake(hh.waiters)
                    out.append(('handler%d completes %s' % (h.hid, oc), done))
        if self.nlogs and st.roots['logs'] < self.nlogs:
            def log(m):
                st = m.st
                st.roots['logs'] += 1
                tx = st.roots['logtx']
                tx.ch.q.append(Adt('cln_plugin::logging::LogEntry', None, {0: Opaque('level'), 1: Seq([], 'str', tag='logmsg')}, ['level', 'message']))
                m.event('log_entry')
                st.sched.wake(tx.ch.rx_waiters)
            out.append(('log entry', log))
        return out
    def enabled_filter(self, m, trs):
        # burst shape only: the environment moves when every task is blocked (run to blocking); the tasks still interleave
        if self.burst:
            tasks = [t for t in trs if t[0] == 'task']
            if tasks:
                return tasks
        return trs
    def after_step(self, m, label):
        st = m.st
        for ev in st.events[st.roots.get('ev_seen', 0):]:
            if ev[0] == 'sink_interleaved':
                raise Violation('interleaved-output', {'writer': ev[1], 'in_progress': ev[2], 'op': ev[3]}, 'output', 'interleave')
            if ev[0] == 'sink_without_lock':
                raise Violation('write-without-output-lock', {'writer': ev[1], 'op': ev[2]}, 'output', 'unlocked-send')
            if ev[0] == 'task_panic':
                raise Violation('driver-panicked', {'task': ev[2], 'panic': ev[3]}, 'driver', 'panic')
        st.roots['ev_seen'] = len(st.events)
        t = st.sched.tasks[0]
        if t.status == 'done':
            raise Violation('driver-returned', {'result': repr(t.result)[:80]}, 'driver', 'exit')
    def on_quiescent(self, m):
        st = m.st
        sink = st.roots['sink']
        pending = [h.hid for h in st.env.handlers if h.result is None]
        if pending or st.roots['fed'] < self.nreq:
            return
        # every request fed has exactly one flushed reply carrying its id, with result xor error
        for k in range(st.roots['fed']):
            idt = sym.var('id%d' % k)
            hits = []
            for v, by, flushed in sink.docs:
                if isinstance(v, Adt) and v.variant == 'Object':
                    j = v.fields[0]
                    idv = j.get(m, list(b'id'))
                    if idv is not None and isinstance(idv, Adt) and idv.variant == 'Number' and (idv.fields[0] is idt or idv.fields[0] == idt):
                        hits.append((v, flushed))
            flushed = [h for h in hits if h[1]]
            if len(flushed) != 1:
                raise Violation('reply-count', {'request': k, 'replies_written': len(hits), 'replies_flushed': len(flushed),
                                                'documents': len(sink.docs)}, 'driver.reply', 'missing' if len(flushed) < 1 else 'duplicate')
            j = flushed[0][0].fields[0]
            has_r = j.get(m, list(b'result')) is not None
            has_e = j.get(m, list(b'error')) is not None
            if has_r == has_e:
                raise Violation('reply-shape', {'request': k, 'result': has_r, 'error': has_e}, 'driver.reply', 'shape')
        unflushed = [1 for d in sink.docs if not d[2]]
        if unflushed:
            raise Violation('unflushed-output', {'documents': len(unflushed)}, 'output', 'unflushed')

def driver_part(rep, c, tier):
    # the last shape exceeds the reply channel's capacity (4): a fifth request arrives while four handlers are still running
    cfgs = [(2, 0, False, ('ok', 'err')), (1, 1, True, ('ok', 'err')), (5, 0, False, ('ok',))] if tier == 'quick' else \
           [(3, 0, False, ('ok', 'err')), (2, 1, True, ('ok', 'err')), (1, 2, True, ('ok', 'err')), (6, 0, False, ('ok',))]
    for nreq, nlogs, sp, ocs in cfgs:
        h = DriverHarness(c, nreq, nlogs, sp, ocs)
        name = 'driver[%d requests,%d log entries%s%s]' % (nreq, nlogs, ',yield' if sp else '', ',burst then handlers finish in order' if nreq >= 5 else '')
        ex = run_explorer(rep, c, h, name, max_states=200000, max_depth=400, time_budget=300 if tier == 'quick' else 1800)
        for v, trail, m in ex.violations[:1]:
            cex = {'property': PID, 'harness': name, 'kind': v.kind, 'detail': v.detail, 'trail': trail.to_list(), 'replay_kind': 'driver',
                   'events': [list(map(str, e)) for e in m.events[-60:]]}
            nat = native_driver(cex, nreq)
            cex['native'] = nat
            path = save_cex(PID, cex)
            if nat.get('reproduced'):
                rep.violations.append({'replay': path, 'role': v.role, 'summary': '%s: %s %s | native: %s' % (name, v.kind, json.dumps(v.detail)[:200], nat.get('why'))})
            else:
                rep.inconclusive.append('%s: counterexample %s did not reproduce natively (%s): %s' % (name, v.kind, nat.get('why'), path))
        if rep.violations:
            break

def native_driver(cex, nreq):
    """Run the real plugin binary: send `nreq` hook requests at once and complete... the handlers are the real
    htlc_accepted handlers: non-trampoline HTLCs, which answer `continue` at once.  Every id must get exactly one reply."""
    from .. import native_plugin
    output_kind = cex.get('kind') in ('interleaved-output', 'write-without-output-lock', 'unflushed-output')
    try:
        o = native_plugin.burst(400 if output_kind else (max(nreq, 4) if nreq < 5 else 300))
    except Exception as e:
        return {'reproduced': False, 'why': 'native driver run failed: %r' % (e,)}
    ids = o.get('reply_ids', [])
    want = o.get('request_ids', [])
    missing = [i for i in want if ids.count(i) != 1]
    garbled = o.get('garbled', [])
    o['reply_ids'] = ids[:8]
    o['request_ids'] = want[:8]
    if garbled:
        return {'reproduced': True, 'native': o, 'why': '%d written documents were not complete JSON documents (interleaved output)' % len(garbled)}
    return {'reproduced': bool(missing), 'native': o, 'why': ('ids %s did not get exactly one reply' % missing[:6]) if missing else 'every id got exactly one well-formed reply natively'}
