"""C17 — wire protocol: any chunking decodes each request once; one response per id; writes are not interleaved."""
import json
import itertools
from .. import sym, replay
from ..sym import T
from ..values import Adt, Ref, Seq, Slice, Cell
from ..machine import explore, Panic
from ..harness import ctx, Report, finish, save_cex, match_known
from ..intrinsics import is_variant
from .. import lib_std, lib_bytes, lib_tokio
from ..lib_bytes import BytesBuf

PID = 'C17'

def ref_frames(data):
    """One-shot reference decoding of a concrete byte string: (frames, leftover, error?)."""
    frames = []
    buf = bytes(data)
    while True:
        k = buf.find(b'\n\n')
        if k < 0:
            return frames, buf, False
        f = buf[:k]
        try:
            f.decode('utf-8')
        except UnicodeDecodeError:
            return frames, buf[k + 2:], True
        frames.append(f)
        buf = buf[k + 2:]

def codec_chunking(rep, c, nbytes, max_splits, alphabet_note):
    """The real MultiLineCodec::decode driven like FramedRead drives it: append a chunk, call decode until it
    returns None.  Symbolic stream; every split of it into <= max_splits+1 chunks."""
    dec = c.body('<MultiLineCodec as Decoder>::decode')
    mkdefault = c.body('<MultiLineCodec as Default>::default')
    xs = [sym.var('s%d' % i) for i in range(nbytes)]
    # bytes range over a small alphabet that contains everything the decoder distinguishes: newline, ASCII,
    # a two-byte UTF-8 sequence (lead, continuation) and an invalid byte
    alpha = (10, 120, 0xc3, 0xa9, 0xff)
    dom = [sym.or_(*[sym.eq(x, a) for a in alpha]) for x in xs]
    stats = {'paths': 0, 'splits': 0}
    for nsplit in range(0, max_splits + 1):
        for cuts in itertools.combinations(range(1, nbytes), nsplit):
            stats['splits'] += 1
            bounds = [0] + list(cuts) + [nbytes]
            chunks = [xs[bounds[i]:bounds[i + 1]] for i in range(len(bounds) - 1)]
            def mk(ch):
                m = c.machine(ch)
                m.pc.extend(dom)
                m.loop_bound = 4 * nbytes + 16
                return m
            def run(m):
                codec = m.call_body(mkdefault, [])        # the codec's own Default impl (it may carry state)
                cref = Ref(Cell(codec), 'v')
                buf = BytesBuf([], 'BytesMut')
                bref = Ref(Cell(buf), 'v')
                frames = []
                errored = False
                for chv in chunks:
                    buf.seq.items.extend(chv)
                    buf.end = len(buf.seq.items)
                    while True:
                        before = list(buf.seq.items[buf.start:buf.end])
                        r = m.call_body(dec, [cref, bref])
                        if r.variant == 'Err':
                            errored = True
                            break
                        o = r.fields[0]
                        if o.variant == 'None':
                            after = list(buf.seq.items[buf.start:buf.end])
                            if len(after) != len(before) or any(a is not b and a != b for a, b in zip(after, before)):
                                raise Panic('decode returned None but changed the buffer')
                            break
                        s = o.fields[0]
                        frames.append(list(s.items))
                    if errored:
                        break
                return frames, list(buf.seq.items[buf.start:buf.end]), errored
            for res in explore(mk, run, order_seed=rep.seed):
                m = res.machine
                rep.paths += 1
                stats['paths'] += 1
                rep.note_machine(m)
                rep.outcomes[res.outcome] = rep.outcomes.get(res.outcome, 0) + 1
                if res.outcome == 'infeasible':
                    continue
                if res.outcome in ('unsupported', 'bound'):
                    rep.inconclusive.append('codec[%d bytes, cuts %s]: %s' % (nbytes, cuts, res.error))
                    if len(rep.inconclusive) > 5:
                        return stats
                    continue
                mdl = c.solver.model(m.pc)
                data = bytes(mdl.get('s%d' % i, 120) for i in range(nbytes))
                exp_frames, exp_left, exp_err = ref_frames(data)
                if res.outcome == 'panic':
                    good = False
                    got = 'panic: ' + str(res.error.msg)
                else:
                    frames, left, err = res.value
                    gf = [bytes(int(sym.evaluate(b, mdl)) if isinstance(b, T) else b for b in f) for f in frames]
                    gl = bytes(int(sym.evaluate(b, mdl)) if isinstance(b, T) else b for b in left)
                    good = gf == exp_frames and err == exp_err and (err or gl == exp_left)
                    got = {'frames': [f.hex() for f in gf], 'left': gl.hex(), 'error': err}
                rep.oblige(good)
                rep.nontrivial.add(('codec', nbytes, cuts, tuple(res.trace)))
                if len(rep.samples) < 8 and exp_frames:
                    rep.sample({'harness': 'codec chunking', 'stream': data.hex(), 'cuts': list(cuts), 'frames': [f.hex() for f in exp_frames]})
                if not good:
                    report_codec(rep, data, list(cuts), got, exp_frames, exp_left, exp_err)
                    return stats
    return stats

def report_codec(rep, data, cuts, got, exp_frames, exp_left, exp_err):
    nat = replay.run('codec', {'stream': data.hex(), 'cuts': cuts})
    ok_native = nat.get('outcome') == 'ok' and nat.get('frames') == [f.hex() for f in exp_frames] and bool(nat.get('error')) == exp_err
    cex = {'property': PID, 'harness': 'codec chunking', 'stream': data.hex(), 'cuts': cuts, 'mirsym': got,
           'expected': {'frames': [f.hex() for f in exp_frames], 'left': exp_left.hex(), 'error': exp_err}, 'native': nat, 'replay_kind': 'codec',
           'input': {'stream': data.hex(), 'cuts': cuts}}
    path = save_cex(PID, cex)
    if not ok_native:
        rep.violations.append({'replay': path, 'role': 'codec.decode',
                               'summary': 'stream %s split at %s decodes to %s natively, one-shot decoding gives %s' % (
                                   data.hex(), cuts, nat.get('frames'), [f.hex() for f in exp_frames])})
    else:
        rep.inconclusive.append('codec counterexample did not reproduce natively: ' + path)

def codec_encode(rep, c, n):
    enc = c.body('<MultiLineCodec as Encoder>::encode')
    xs = [sym.var('e%d' % i) for i in range(n)]
    dom = [sym.and_(sym.le(0, x), sym.le(x, 255)) for x in xs]
    pre = [sym.var('p0'), sym.var('p1')]
    def mk(ch):
        m = c.machine(ch)
        m.pc.extend(dom)
        return m
    def run(m):
        codec = m.call_body(c.body('<MultiLineCodec as Default>::default'), [])
        buf = BytesBuf(list(pre), 'BytesMut')
        r = m.call_body(enc, [Ref(Cell(codec), 'v'), Slice(Seq(list(xs), 'str')), Ref(Cell(buf), 'v')])
        return r, list(buf.seq.items[buf.start:buf.end])
    for res in explore(mk, run, order_seed=rep.seed):
        rep.paths += 1
        rep.note_machine(res.machine)
        if res.outcome != 'ok':
            rep.inconclusive.append('encode: %s %s' % (res.outcome, res.error))
            continue
        r, out = res.value
        exp = pre + xs + [10, 10]
        good = r.variant == 'Ok' and len(out) == len(exp) and all((a is b) or a == b for a, b in zip(out, exp))
        rep.oblige(good)
        rep.nontrivial.add(('encode', n))
        if not good:
            path = save_cex(PID, {'harness': 'encode', 'out': repr(out)[:300]})
            rep.violations.append({'replay': path, 'role': 'codec.encode', 'summary': 'encode does not append exactly line + two newlines'})

def main(tier, seed, args):
    rep = Report(PID, tier, seed, 'model_checking')
    c = ctx('on')
    nbytes, splits = (7, 2) if tier == 'quick' else (9, 3)
    rep.bounds = {'stream_bytes': nbytes, 'split_points': splits, 'alphabet': 'newline, ASCII, 2-byte UTF-8 lead and continuation, invalid byte 0xff',
                  'outside': 'clauses (b) one reply per request id and (c) non-interleaved writes: the driver loop (serde_json::Value, FramedRead/FramedWrite, boxed callbacks) is not encoded; longer streams'}
    rep.assumptions = ['tokio-util FramedRead contract: append what was read, call decode until it returns None', 'bytes BytesMut contract (split_to, deref, put)']
    rep.trusted = ['mirsym', 'z3', 'bytes/std contracts']
    for n in range(2, nbytes + 1):
        st = codec_chunking(rep, c, n, min(splits, n - 1), '')
        rep.parts['codec_chunking[%d bytes]' % n] = st
        if rep.violations or len(rep.inconclusive) > 5:
            break
    codec_encode(rep, c, 3)
    rep.states = len(rep.nontrivial)
    rep.transitions = rep.paths
    finish(rep, [c], './check C17 --tier ' + tier)

def replay_cex(path):
    cex = json.load(open(path))
    nat = replay.run('codec', cex['input'])
    print(json.dumps(nat, indent=1))
    exp = cex['expected']
    if nat.get('frames') != exp['frames'] or bool(nat.get('error')) != exp['error']:
        print('VIOLATION property=%s replay=%s' % (PID, path))
        return 1
    return 0
