"""C09 — no crash point or failed write leaves a payment hash permanently unpayable."""
from .. import sym
from ..harness import ctx, Report, finish
from ..sched import Violation, digest
from ..scenario import resp_is
from ..monitors import Coverage
from . import scen_common, scen_payflow
from ..env_node import _short

PID = 'C09'

def ds_snapshot(env):
    return sorted((repr(k), _short(v[0]), _short(v[1])) for k, v in env.datastore.items())

class ProbeScenario(scen_common.ScenarioWithPc):
    """HTLC 0 is the interrupted run; HTLCs 1.. are later, fully funded retries (probes) against a cooperative node."""
    def env_transitions(self, m):
        st = m.st
        base = [x for x in scen_common.ScenarioWithPc.env_transitions(self, m) if not x[0].startswith('deliver htlc') or x[0] == 'deliver htlc0']
        if st.roots.get('probing'):
            base = [x for x in base if x[0] != 'CRASH']
        runnable = any(t.status == 'runnable' for t in st.sched.tasks)
        pairs = self.cfg.get('probe_pairs')
        if pairs and st.roots.get('probing') and not runnable and not st.roots.get('paid'):
            # two-part retries: the second part of a pair arrives while the first one is held (or right after it was
            # answered): the parts of one retry come one after the other, not together
            for a, b in pairs:
                if a in st.roots['delivered'] and b not in st.roots['delivered'] and \
                        all(x[0].startswith('fire ') for x in base):
                    # cooperative sender: the second part arrives before the MPP timer of the first one fires
                    return [('deliver htlc%d' % b, self._deliver(b))]
        if pairs and st.roots.get('probing') and runnable:
            # ... and a timer does not fire while a handler that has already been called has not run yet
            base = [x for x in base if not x[0].startswith('fire ')]
        nondeliv = [x for x in base if not x[0].startswith('fire ')] if False else base
        if not base and not runnable and 0 in st.roots['delivered']:
            # quiescent: the next probe may arrive
            answered0 = (st.roots['epoch'], 0) in st.roots['responses'] or st.env.crashed
            nxt = [s.idx for s in st.roots['specs'] if s.idx >= 1 and s.idx not in st.roots['delivered']]
            waiting = [k for k in st.roots['delivered'] if (st.roots['epoch'], k) not in st.roots['responses']]
            if nxt and not st.roots.get('paid'):
                k = nxt[0]
                def probe(m, k=k):
                    st = m.st
                    env = st.env
                    st.roots['probing'] = True
                    env.fault_budget = 0
                    env.write_fault_budget = 0
                    env.parts_can_fail = False
                    env._max_total = len(env.parts) + 1        # the retry's pay command may create its own part
                    env.pay_outcomes = ('complete',)
                    st.roots.setdefault('probe_snap', {})[k] = ds_snapshot(env)
                    self._deliver(k)(m)
                return [('deliver htlc%d' % k, probe)]
        return base

class Payable:
    def on_response(self, m, sc, k, resp):
        st = m.st
        if k == 0:
            return
        if resp_is(resp, 'Resolve'):
            st.roots['paid'] = True
            return
        before = st.roots.get('probe_snap', {}).get(k)
        st.roots.setdefault('failed_probes', []).append(k)
    def on_quiescent(self, m, sc):
        st = m.st
        if st.roots.get('paid'):
            return
        probes = [s.idx for s in st.roots['specs'] if s.idx >= 1]
        delivered = [k for k in probes if k in st.roots['delivered']]
        if not delivered:
            return
        waiting = [k for k in delivered if (st.roots['epoch'], k) not in st.roots['responses']]
        last = delivered[-1]
        now = ds_snapshot(st.env)
        fix = st.roots.get('probe_snap', {}).get(last) == now
        if len(delivered) == len(probes) or fix:
            cause = 'fixpoint' if fix else 'retries-exhausted'
            ev = [x for x in st.env.log if x[0] == 'datastore' and x[1] in ('FAULT-LOST-ACK', 'FAULT-REJECT')]
            how = 'crash' if st.env.crashed else ('write-fault' if ev else 'none')
            raise Violation('permanently-unpayable', {'probes': delivered, 'unanswered': waiting, 'durable_state': now, 'fixpoint': fix, 'after': how,
                                                       'rpc_log': [list(map(str, x)) for x in st.env.log[-14:]]},
                            'store.recovery', 'attempt-record-missing' if any('attempts' in r[0] for r in now) is False and any('Pending' in str(r[1]) for r in now) else cause)
    def is_terminal(self, m, sc):
        return bool(m.st.roots.get('paid'))

def main(tier, seed, args):
    rep = Report(PID, tier, seed, 'model_checking')
    c = ctx('on')
    rep.bounds = {'interrupted_run': '1 fully funded HTLC with one crash at any point, or one datastore write fault (rejected / applied but reported failed)',
                  'retries': 2, 'parts': 1, 'outside': 'crash + fault combined (thorough), more parts'}
    rep.assumptions = ['retries run against a cooperative node (no faults, the payee releases the preimage)',
                       'a failing retry that leaves the durable state exactly as it found it will fail forever (fixpoint)']
    rep.trusted = ['mirsym', 'z3', 'node model', 'tokio contracts']
    budget = 440 if tier == 'quick' else 3000
    configs = []
    for name, kw in (('crash', dict(crash=1)), ('write fault', dict(write_faults=1))):
        for store in ('free_absent', 'free'):
            cfg, pc = scen_payflow.flow_cfg(3, store, amounts=[1006000] * 3, pay_outcomes=('complete', 'failed'), **kw)
            configs.append(('interrupted by %s, then 2 retries%s' % (name, '' if store == 'free_absent' else ' (hash used before)'), cfg, pc, kw))
    # retries that come in two parts, one after the other, after a crash while the payment was in flight: a stale Pending
    # record (its attempt possibly older than the MPP timeout) must not make every such retry fail
    cfg, pc = scen_payflow.flow_cfg(5, 'free_absent', amounts=[1006000, 500000, 506000, 500000, 506000], pay_outcomes=('failed',),
                                    crash=1, crash_after_pays=1, probe_pairs=((1, 2), (3, 4)), parts_can_fail=True)
    configs.append(('interrupted by crash during pay, then 2 two-part retries', cfg, pc, dict(crash=1)))
    if tier == 'thorough':
        cfg, pc = scen_payflow.flow_cfg(3, 'free_absent', amounts=[1006000] * 3, pay_outcomes=('complete', 'failed'), crash=1, write_faults=1)
        configs.append(('crash + write fault, then 2 retries', cfg, pc, {}))
    from .c20 import run_explorer
    for name, cfg, pc, kw in configs:
        cov = Coverage(['response:Resolve', 'crash' if 'crash' in name else 'fault'])
        sc = ProbeScenario(c, cfg, [Payable(), cov], pc)
        ex = run_explorer(rep, c, sc, name, max_states=300000, max_depth=1200, time_budget=budget)
        scen_common.report(rep, PID, name, ex, sc)
        if cov.missing() and not ex.violations:
            rep.inconclusive.append('%s: vacuity guard: never reached %s' % (name, cov.missing()))
        if rep.violations:
            break
    finish(rep, [c], './check C09 --tier ' + tier)

def replay_cex(path):
    return scen_common.replay_cex(PID, path)
