"""C11 — incomplete multi-part sets fail at the MPP timeout: not before, not much later."""
from .. import sym
from ..sym import T
from ..harness import ctx, Report, finish
from ..sched import Violation
from ..scenario import InvoiceSpec, std_htlcs, fail_code, resp_is, U32
from ..monitors import (raise_if, Coverage, Decisions, fee_ok_term, deliver_term, declared_total, specs_of, oneshot_value)
from .. import lib_std
from . import scen_common

PID = 'C11'
NS = lib_std.NANOS

class TimeoutMonitor(Decisions):
    def __init__(self, restart):
        self.restart = restart
    def on_init(self, m, sc):
        st = m.st
        specs = specs_of(m)
        tot = 0
        for s in specs.values():
            tot = sym.add(tot, s.amount)
        dl = deliver_term(m, sc, list(specs.values())[0])
        # the set never completes, and no HTLC is rejecting
        m.pc.append(sym.not_(fee_ok_term(m, tot, dl)))
        _b, _p, delta = st.roots['policy']
        for s in specs.values():
            m.pc.append(sym.ge(s.cltv_rel, delta))
            m.pc.append(fee_ok_term(m, declared_total(s), dl))
        if not m.feasible(True):
            from ..machine import Infeasible
            raise Infeasible('assumptions')
    def after_step(self, m, sc, label, new):
        Decisions.after_step(self, m, sc, label, new)
        st = m.st
        env = st.env
        mpp_ns = sym.mul(sc.cfg['mpp_timeout_s'], NS)
        for i, ev in enumerate(new):
            if ev[0] == 'rpc_call' and ev[2] == 'pay':
                raise Violation('pay-for-incomplete-set', {}, 'lifecycle.pay', 'incomplete-set')
            if ev[0] == 'timer_created':
                dur = ev[3]
                if not self.restart:
                    raise_if(m, sym.ne(dur, mpp_ns), 'wrong-timeout', {'duration_ns': sym.show(dur)}, 'lifecycle.timer', 'duration')
                    before = [e for e in new[:i]]
                    if not any(e[0] == 'rpc_return' and e[2] == 'listdatastore' for e in before):
                        raise Violation('timer-not-started-after-store-answer', {'step': label}, 'lifecycle.timer', 'late-start')
                else:
                    now = env.clock
                    at_ns = sym.mul(sym.var('attempt_time0'), NS)
                    elapsed = sym.ite(sym.lt(now, at_ns), 0, sym.sub(now, at_ns))
                    exp = sym.ite(sym.lt(mpp_ns, elapsed), 0, sym.sub(mpp_ns, elapsed))
                    raise_if(m, sym.gt(dur, mpp_ns), 'restart-grants-more-than-one-period', {'duration_ns': sym.show(dur)}, 'lifecycle.timer', 'restart-duration')
                    raise_if(m, sym.ne(dur, exp), 'wrong-restart-timeout', {'duration_ns': sym.show(dur)}, 'lifecycle.timer', 'restart-duration')
            if ev[0] == 'oneshot_send':
                key = st.roots.get('os_of', {}).get(ev[1])
                if key is None:
                    continue
                v = oneshot_value(m, ev[1])
                code = fail_code(v)
                if not resp_is(v, 'Fail') or code != (0x20, 25):
                    raise Violation('wrong-response-for-incomplete-set', {'htlc': key[1], 'response': repr(v)[:80]}, 'htlc.response', 'not-temporary-trampoline-failure')
                fired = any(e[0] == 'timer_fired' for e in st.events)
                if not fired:
                    if self.restart:
                        # allowed only when nothing of the period was left
                        at_ns = sym.mul(sym.var('attempt_time0'), NS)
                        elapsed = sym.ite(sym.lt(env.clock, at_ns), 0, sym.sub(env.clock, at_ns))
                        raise_if(m, sym.lt(elapsed, mpp_ns), 'failed-before-timeout', {'htlc': key[1]}, 'htlc.response', 'early')
                    else:
                        raise Violation('failed-before-timeout', {'htlc': key[1]}, 'htlc.response', 'early')
    def on_quiescent(self, m, sc):
        st = m.st
        waiting = [st.roots['task_of'][t.tid] for t in st.sched.tasks if t.tid in st.roots['task_of'] and t.status == 'blocked']
        if waiting:
            raise Violation('handler-never-answered', {'htlcs': waiting}, 'handler.wait', 'hang')

def cfg_partial(n, restart):
    H = sym.var('H')
    pc = []
    inv = InvoiceSpec(1, H, sym.var('inv_amount'))
    specs = std_htlcs(pc, n, H)
    mpp = sym.var('mpp_s')
    pc.append(sym.and_(sym.le(1, mpp), sym.le(mpp, U32.hi)))
    cfg = dict(htlcs=specs, invoices=[inv], store_init='pending' if restart else 'free', max_parts=1, pay_outcomes=('complete',),
               mpp_timeout_s=mpp, pending_parts=1, payee_releases=False, native_pending_age_s=-6)
    return cfg, pc

class DeadOldParts:
    """Restart configuration: the interrupted attempt is dead (its part failed), so the wait reports none."""
    def on_init(self, m, sc):
        for p in m.st.env.parts:
            if p.status != 'failed':
                from ..machine import Infeasible
                raise Infeasible('only dead earlier attempts in this configuration')

def main(tier, seed, args):
    rep = Report(PID, tier, seed, 'model_checking')
    c = ctx('on')
    n = 2 if tier == 'quick' else 3
    rep.bounds = {'partial_htlcs': n, 'mpp_timeout': 'symbolic 1..2^32-1 s', 'restart': 'Pending record with a dead part, attempt time symbolic (older or newer than now)',
                  'outside': 'more HTLCs; real-time accuracy of tokio timers (contract)'}
    rep.assumptions = ['the set never reaches the required total and no HTLC is rejecting (assumed on the symbolic inputs)',
                       'wall clock: arbitrary non-decreasing', 'tokio sleep completes only after the environment fires it']
    rep.trusted = ['mirsym', 'z3', 'tokio time/select contracts', 'node model']
    budget = 440 if tier == 'quick' else 3000
    configs = []
    cfg, pc = cfg_partial(n, False)
    configs.append(('incomplete[%d htlcs, free]' % n, cfg, pc, [TimeoutMonitor(False), Coverage(['timer', 'response:Fail(2019)'])], {}))
    cfg, pc = cfg_partial(1, True)
    configs.append(('incomplete[1 htlc, restart]', cfg, pc, [DeadOldParts(), TimeoutMonitor(True), Coverage(['timer', 'response:Fail(2019)'])], {}))
    # "not much later": the timer's resolve() needs the payments lock, so the bound holds only while no other payment
    # keeps that lock across an RPC or a pause -- checked on a payment that goes all the way to pay, and on its error paths
    from .scen_payflow import flow_cfg
    from ..monitors import LockDiscipline
    cfg, pc = flow_cfg(1, 'free_absent', pay_outcomes=('complete', 'failed'))
    configs.append(('no await under the table lock[1 funded htlc]', cfg, pc, [LockDiscipline(), Coverage(['pay'])], {}))
    cfg, pc = flow_cfg(1, 'free_absent', pay_outcomes=('complete',), faults=1, fault_methods=('datastore', 'listdatastore'),
                       fault_codes=((-1, 'Rpc'),))
    configs.append(('no await under the table lock[1 funded htlc, 1 datastore fault]', cfg, pc, [LockDiscipline(), Coverage(['fault'])], {}))
    from .c06 import cfg_concrete
    cfg, pc = cfg_concrete([1006000, 1000, 1000])
    for sp in cfg['htlcs'][1:]:
        sp.cltv_rel = 10                      # two late parts that trip the expiry check while the payment is in flight
    configs.append(('no await under the table lock[2 failing htlcs while paying]', cfg, pc, [LockDiscipline(), Coverage(['pay'])], {}))
    scen_common.run_configs(rep, PID, c, configs, budget)
    finish(rep, [c], './check C11 --tier ' + tier)

def replay_cex(path):
    return scen_common.replay_cex(PID, path)
