"""C15 — waiting on a payment reports 'none' only if nothing is pending or complete.
   C16 shares the harness (pay wrapper) — see c16.py."""
import json
from .. import sym, replay
from ..sym import T
from ..values import Adt, Ref, Seq, Cell, Opaque, unit
from ..machine import Panic, Unsupported
from ..harness import ctx, Report, finish, Inconclusive, save_cex, match_known
from ..sched import Explorer, Violation
from ..intrinsics import is_variant, some, none
from .. import lib_std, lib_bytes, lib_tokio, env_node
from ..env_node import NodeEnv, Part, hash_value, preimage_of, pubkey_value
from . import common
from .c20 import arc, run_explorer

PID = 'C15'

def provider_value(xpay=False, retry_for=60):
    rpc = Adt('rpc::Rpc', None, {0: Seq([], 'str', tag='rpcfile')})
    return Adt('payment_provider::PayPaymentProvider', None, {0: retry_for, 1: arc(rpc), 2: xpay}, ['retry_for', 'rpc', 'xpay'])

class WaitEnv(NodeEnv):
    def __init__(self):
        NodeEnv.__init__(self)
    def pay_hash(self, m, c):
        return m.st.roots['H']

class WaitHarness:
    """wait_payment(H) against a node with k parts in arbitrary initial states that resolve at arbitrary
    points relative to the list / wait RPCs."""
    max_polls = 60
    stop_on_first_violation = True
    def __init__(self, c, nparts, codes, faults=0, fault_codes=(), ids=None):
        self.c = c
        self.ids = ids          # [(groupid, partid)] per part; default: one group, part ids 1..n
        self.nparts = nparts
        self.codes = codes
        self.faults = faults
        self.fault_codes = fault_codes
    def init(self, m):
        H = sym.var('H')
        env = WaitEnv()
        env.wait_fail_codes = self.codes
        env.fault_budget = self.faults
        env.fault_methods = ('listsendpays', 'waitsendpay')
        env.fault_codes = self.fault_codes or ((-1, 'Rpc'),)
        m.st.env = env
        m.st.roots['H'] = H
        for i in range(self.nparts):
            g, pi = self.ids[i] if self.ids else (1, i + 1)
            p = Part(i, H, groupid=g, partid=pi)
            p.status = ('pending', 'complete', 'failed')[m.choose(3, 'part%d.initial' % i)]
            env.parts.append(p)
        prov = provider_value()
        body = self.c.body('<PayPaymentProvider as PaymentProvider>::wait_payment')
        fut = m.call_body(body, [Ref(Cell(prov), 'v'), hash_value(H)])
        m.st.sched.new_task('wait_payment', fut)
        m.st.roots['checked'] = False
    def env_transitions(self, m):
        return m.st.env.transitions(m)
    def after_step(self, m, label):
        st = m.st
        t = st.sched.tasks[0]
        if t.status == 'panicked':
            raise Violation('wait-panicked', {'panic': t.panic}, 'wait_payment', 'panic')
        if t.status == 'done' and not st.roots['checked']:
            st.roots['checked'] = True
            check_wait_result(m, t.result, st.env, st.roots['H'], 'wait_payment')
    def on_quiescent(self, m):
        t = m.st.sched.tasks[0]
        if t.status != 'done':
            # blocked forever is fine only if it waits for a part that never resolves: impossible here, every
            # pending part has enabled resolve transitions
            raise Violation('wait-stuck', {'status': t.status, 'events': [list(map(str, e)) for e in m.events[-10:]]}, 'wait_payment', 'stuck')

def parts_summary(env):
    return [(p.pid, p.status) for p in env.parts]

def check_wait_result(m, res, env, H, who):
    """The C15 oracle, evaluated at the instant the future completes."""
    anyc = [p for p in env.parts if p.status == 'complete']
    anyp = [p for p in env.parts if p.status == 'pending']
    log = [list(map(str, x)) for x in env.log]
    if is_variant(res, 'Ok'):
        opt = res.fields[0]
        if opt.variant == 'Some':
            pre = opt.fields[0]
            tag = getattr(pre, 'tag', None)
            good = bool(anyc) and tag is not None and not m.feasible(sym.ne(tag, preimage_of(H)))
            if not good:
                raise Violation('preimage-without-complete-part', {'parts': parts_summary(env), 'rpc_log': log}, who + '.return[Some]', 'no-complete-part')
        else:
            if anyc or anyp:
                cause = 'complete-part-missed' if anyc else 'pending-part-missed'
                raise Violation('none-while-part-live', {'parts': parts_summary(env), 'rpc_log': log}, who + '.return[None]', cause)
    else:
        faulted = env.faults_used > 0 or any(x[0] == 'waitsendpay' and len(x) > 3 and x[3] not in (202, 203, 204, 208, 209) for x in env.log)
        if not faulted:
            raise Violation('err-without-rpc-error', {'parts': parts_summary(env), 'rpc_log': log}, who + '.return[Err]', 'spurious-error')

def script_from_log(env, H='11' * 32):
    """Replay script: answers in the order the model gave them."""
    steps = []
    for x in env.log:
        if len(x) > 1 and x[1] in ('FAULT', 'FAULT-REJECT', 'FAULT-LOST-ACK'):
            steps.append({'method': x[0], 'fault': x[2]})
        elif x[0] == 'timer':
            ns = x[2]
            steps.append({'advance_ms': (int(ns) // 1000000 if isinstance(ns, int) else 1000) + 1})
        elif x[0] == 'listsendpays':
            want = x[1]
            ids = dict((p.pid, (p.groupid, p.partid)) for p in env.parts)
            parts = [{'id': pid, 'status': st, 'groupid': ids.get(pid, (1, pid + 1))[0], 'partid': ids.get(pid, (1, pid + 1))[1]}
                     for pid, st in x[2] if st == want]
            steps.append({'method': 'listsendpays', 'status': want, 'parts': parts})
        elif x[0] == 'waitsendpay':
            ids = dict((p.pid, (p.groupid, p.partid)) for p in env.parts)
            g, pi = ids.get(x[1], (1, (x[1] or 0) + 1))
            if x[2] == 'complete':
                steps.append({'method': 'waitsendpay', 'part': x[1], 'complete': True, 'groupid': g, 'partid': pi})
            elif x[2] == 'failed':
                steps.append({'method': 'waitsendpay', 'part': x[1], 'code': x[3], 'groupid': g, 'partid': pi})
            elif x[2] == 'timeout':
                steps.append({'method': 'waitsendpay', 'part': None, 'code': 200})
            else:
                steps.append({'method': 'waitsendpay', 'part': None, 'code': 208})
        elif x[0] == 'part':
            steps.append({'note': 'part %s -> %s' % (x[1], x[2])})
        elif x[0] == 'pay':
            if x[1] == 'returns':
                steps.append({'method': 'pay', 'outcome': x[2]})
    return steps

def report(rep, name, ex, pid=PID, kind='wait_payment'):
    for v, trail, m in ex.violations:
        env = m.st.env
        script = {'kind': kind, 'steps': script_from_log(env), 'final_parts': parts_summary(env), 'xpay': False}
        nat = replay.run('provider', script, timeout=120)
        reproduced = native_violates(nat, script)
        cex = {'property': pid, 'harness': name, 'kind': v.kind, 'detail': v.detail, 'trail': trail.to_list(),
               'script': script, 'native': nat, 'replay_kind': 'provider', 'role': v.role, 'cause': v.cause}
        path = save_cex(pid, cex)
        if reproduced:
            k = match_known(pid, v.role, v.cause)
            if k:
                msg = '%s/%s %s' % (v.role, v.cause, k.get('text', ''))
                if msg not in rep.known:
                    rep.known.append(msg)
            else:
                rep.violations.append({'replay': path, 'role': v.role,
                                       'summary': '%s: %s parts=%s native=%s' % (name, v.kind, v.detail.get('parts'), nat.get('result'))})
        else:
            rep.inconclusive.append('%s: counterexample %s did not reproduce natively: %s (native: %s)' % (name, v.kind, path, json.dumps(nat)[:300]))

def native_violates(nat, script):
    """Same oracle on the native observation: result vs the final part states of the script."""
    if nat.get('outcome') != 'ok':
        return nat.get('outcome') == 'panic'
    res = nat.get('result')
    final = dict((p, s) for p, s in script['final_parts'])
    anyc = any(s == 'complete' for s in final.values())
    anyp = any(s == 'pending' for s in final.values())
    faulted = any('fault' in st for st in script.get('steps', []))
    if res == 'err' and faulted and script.get('kind') != 'pay':
        # wait_payment may pass an injected RPC error on (the oracle only forbids Ok(None) / a wrong Ok(Some));
        # pay may not: it keeps asking until the outcome is known
        return False
    if res == 'none' or res == 'err':
        return anyc or anyp
    if res == 'some':
        return not anyc
    return False

def main(tier, seed, args):
    rep = Report(PID, tier, seed, 'model_checking')
    c = ctx('on')
    nparts = (0, 1, 2) if tier == 'quick' else (0, 1, 2, 3)
    codes = (202, 203, 204, 208, 209)      # every code wait_payment treats as 'this part is over'
    rep.bounds = {'parts': max(nparts), 'waitsendpay_failure_codes': '%s (3 parts: 203, 204)' % list(codes),
                  'faults': '1 non-tolerated RPC error on listsendpays or waitsendpay (codes 200 / transport; thorough: also -1, 999)',
                  'outside': 'more than %d parts; parts created while waiting (a running pay is C16)' % max(nparts)}
    rep.assumptions = ['node model of listsendpays / waitsendpay (env_node.py): part states are monotone; each RPC takes effect at one linearisation point',
                       'futures 0.3 FuturesUnordered: yields any ready member; tokio join!: expansion executed from the crate MIR',
                       'SHA-256(preimage) = hash is the node\'s contract: preimages are terms pre(H)']
    rep.trusted = ['mirsym', 'z3', 'tokio/futures contracts', 'node model']
    for k in nparts:
        # (3 parts x 5 codes exceeds 300 000 states since the wrapper in src/rpc.rs runs too: 3 parts use two codes)
        h = WaitHarness(c, k, codes if k < 3 else (203, 204))
        ex = run_explorer(rep, c, h, 'wait_payment[%d parts]' % k, max_states=300000 if k < 3 else 1000000)
        report(rep, 'wait_payment[%d parts]' % k, ex)
        if ex.violations:
            break
    if not rep.violations:
        # parts of two attempts (groups) that share a part id: a part is identified by (groupid, partid)
        h = WaitHarness(c, 2, (203, 204), ids=[(1, 1), (2, 1)])
        ex = run_explorer(rep, c, h, 'wait_payment[2 parts in two groups, same part id]', max_states=300000)
        report(rep, 'wait_payment[two groups]', ex)
    if not rep.violations:
        fc = ((200, 'Rpc'), (None, 'General')) if tier == 'quick' else ((-1, 'Rpc'), (200, 'Rpc'), (999, 'Rpc'), (None, 'General'))
        h = WaitHarness(c, 2, (204,), faults=1, fault_codes=fc)
        ex = run_explorer(rep, c, h, 'wait_payment[2 parts, 1 rpc fault]', max_states=300000)
        report(rep, 'wait_payment[faults]', ex)
    finish(rep, [c], './check C15 --tier ' + tier)

def replay_cex(path):
    cex = json.load(open(path))
    nat = replay.run('provider', cex['script'], timeout=120)
    print(json.dumps(nat, indent=1))
    if native_violates(nat, cex['script']):
        print('VIOLATION property=%s replay=%s' % (cex.get('property', PID), path))
        return 1
    return 0
