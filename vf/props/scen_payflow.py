"""Scenario configurations shared by C02, C05, C08, C09: one hash, concrete money, the nondeterminism is in
the schedule, the stored history, the node's behaviour, crashes and faults."""
from .. import sym
from ..scenario import InvoiceSpec, HtlcSpec

def flow_cfg(n_htlcs=1, store='free_absent', amounts=None, **kw):
    H = sym.var('H')
    inv = InvoiceSpec(1, H, 1000000)
    amounts = amounts or [1006000] * n_htlcs
    specs = []
    for i, a in enumerate(amounts):
        specs.append(HtlcSpec(i, invoice=0, hash=H, amount=a, forward='amount', total=1006000, cltv_expiry=3000 + i, cltv_rel=1500))
    cfg = dict(htlcs=specs, invoices=[inv], store_init=store, max_parts=1, pay_outcomes=('complete', 'pending', 'failed', 'failed_warning', 'failed_warning_empty', 'error:210', 'error:205', 'error:none'),
               pending_parts=1, policy=(1000, 5000, 1008), cltv_delta=34, height=100, max_total_parts=2, deliver_in_order=True,
               strict_por=True, rng_free=False)   # a single HTLC never makes two select! branches ready at once: the start index is irrelevant
    cfg.update(kw)
    return cfg, []

def standard_configs(tier, crash=True, faults=0, write_faults=0, fault_methods=(), two_sets=('paid', 'failed', 'error:210'), write_faults_and_crash=True):
    """[(name, cfg, pc, kwargs)]"""
    out = []
    for store in ('free_absent', 'pending', 'succeeded'):
        cfg, pc = flow_cfg(1, store)
        out.append(('1 htlc, stored=%s' % store, cfg, pc, {}))
    # restart with two parts of the interrupted attempt still on the node, in any states, failing with different codes
    cfg, pc = flow_cfg(1, 'pending', pending_parts=2, old_parts_in_groups=True, wait_fail_codes=(203, 204), max_total_parts=3,
                       pay_outcomes=('complete',), parts_can_fail=True)
    out.append(('1 htlc, stored=pending[2 earlier parts, one per group]', cfg, pc, {}))
    # restart with a replayed HTLC that now trips a policy check (blocks were mined / policy changed): still held
    cfg, pc = flow_cfg(1, 'pending')
    cfg['htlcs'][0].cltv_rel = 10
    out.append(('1 rejecting htlc, stored=pending', cfg, pc, {}))
    cfg, pc = flow_cfg(1, 'pending')
    cfg['htlcs'][0].total = 1000
    out.append(('1 underdeclared htlc, stored=pending', cfg, pc, {}))
    # a second set for the same invoice arriving at any point of the first lifecycle (also during its bookkeeping tail)
    cfg, pc = flow_cfg(2, 'free_absent', amounts=[1006000, 1006000], pay_outcomes=('complete',), parts_can_fail=False, deliver_after_response=True)
    if 'paid' in two_sets:
        out.append(('2 consecutive sets, first one paid', cfg, pc, {}))
    for oc in [x for x in ('failed', 'error:210') if x in two_sets or tier == 'thorough']:
        cfg, pc = flow_cfg(2, 'free_absent', amounts=[1006000, 1006000], pay_outcomes=(oc,), payee_releases=False, deliver_after_response=True,
                           timers=False, eager_tasks=True)
        out.append(('2 consecutive sets, first pay ends %s' % oc, cfg, pc, {}))
    if crash and 'crash' in two_sets:
        # ... and the node restarts while the second set's attempt is still in flight: the replayed HTLC must find it
        cfg, pc = flow_cfg(2, 'free_absent', amounts=[1006000, 1006000], pay_outcomes=('error:210',), pay_seq=((0, ('error:210',)), (1, ())),
                           payee_releases=False, parts_can_fail=False, deliver_after_response=True, timers=False, eager_tasks=True,
                           crash=1, crash_after_pays=2, crash_needs_live_part=True, max_total_parts=3)
        out.append(('2 consecutive sets, first pay ends error:210, crash during the second attempt', cfg, pc, {}))
    if crash:
        cfg, pc = flow_cfg(1, 'free_absent', crash=1, pay_outcomes=('complete', 'failed'))
        out.append(('1 htlc, 1 crash', cfg, pc, {}))
    if crash and write_faults_and_crash:
        # a datastore write that is rejected (or applied but reported failed) and, in the same run, a crash; the replayed
        # HTLC may by then have too little relative expiry left
        cfg, pc = flow_cfg(1, 'free_absent', crash=1, write_faults=1, crash_shrinks_expiry=True, pay_outcomes=('complete', 'failed'),
                           parts_can_fail=False)
        out.append(('1 htlc, 1 write fault + 1 crash', cfg, pc, {}))
    if faults or write_faults:
        cfg, pc = flow_cfg(1, 'free_absent', faults=faults, write_faults=write_faults, fault_methods=fault_methods,
                           fault_codes=((-1, 'Rpc'), (None, 'General')), pay_outcomes=('complete', 'pending', 'failed'))
        out.append(('1 htlc, faults', cfg, pc, {}))
        if tier == 'thorough':
            cfg, pc = flow_cfg(1, 'pending', faults=faults, write_faults=write_faults, fault_methods=fault_methods,
                               fault_codes=((-1, 'Rpc'), (None, 'General')), pay_outcomes=('complete', 'failed'))
            out.append(('1 htlc, restart, faults', cfg, pc, {}))
    return out
