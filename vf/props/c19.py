"""C19 — startup configuration is validated and applied faithfully."""
import json
from .. import sym, replay
from ..sym import T
from ..values import Adt, Ref, Seq, Slice, Cell, Opaque, unit
from ..harness import ctx, Report, finish, save_cex, match_known
from ..sched import Explorer, Violation
from ..intrinsics import is_variant, some, none, ok, err, deref_val
from ..machine import Unsupported
from .. import lib_std, lib_bytes, lib_tokio, env_node
from ..lib_tokio import ReadyFut
from ..env_node import NodeEnv, boxed_future
from .c20 import run_explorer
from ..monitors import model_public

PID = 'C19'
I64 = sym.INT_TYPES['i64']

INT_OPTS = {'trampoline-cltv-delta': 'o_cltv', 'trampoline-policy-cltv-delta': 'o_pol_delta', 'trampoline-policy-fee-base': 'o_base',
            'trampoline-policy-fee-per-satoshi': 'o_ppm', 'trampoline-mpp-timeout': 'o_mpp', 'trampoline-payment-timeout': 'o_pay'}
BOOL_OPTS = {'trampoline-no-self-route-hints': 'o_noself', 'trampoline-xpay': 'o_xpay'}

class StartupEnv(NodeEnv):
    def __init__(self):
        NodeEnv.__init__(self)
        self.started = None
        self.asked = []
    def option_name(self, m, v):
        v = deref_val(v)
        for k in sorted(v.fields, key=str):
            f = v.fields[k]
            if isinstance(f, Slice):
                return bytes(f.elems()).decode()
        raise Unsupported('option without a name: %r' % (v,))
    def intercept(self, m, name, raw, args):
        r = NodeEnv.intercept(self, m, name, raw, args)
        if r is not None:
            return r
        if name == 'plugin::init':
            return (Opaque('Builder'),)
        if name.endswith('Builder::option'):
            return (args[0],)
        if name.endswith('Builder::configure'):
            return (ReadyFut(ok(some(Opaque('ConfiguredPlugin')))),)
        if name.endswith('ConfiguredPlugin::configuration'):
            cfgv = m.reg.struct_fields('Configuration')
            return (Adt('cln_plugin::messages::Configuration', None, {i: (Seq([], 'str', tag='rpc_file') if n in ('rpc_file', 'lightning_dir', 'network') else none())
                                                                         for i, n in enumerate(cfgv)}, list(cfgv)),)
        if name.endswith('ConfiguredPlugin::option'):
            nm = self.option_name(m, args[1])
            self.asked.append(nm)
            if nm in INT_OPTS:
                return (ok(sym.var(INT_OPTS[nm])),)
            if nm in BOOL_OPTS:
                return (ok(sym.var(BOOL_OPTS[nm], 'B')),)
            if nm == 'trampoline-email-subject':
                return (ok(Seq(list(b'subject'), 'str')),)
            return (ok(none()),)
        if name.endswith('ConfiguredPlugin::start'):
            self.started = args[1]
            m.event('plugin_started')
            return (ReadyFut(err(Opaque('anyhow', 'stop after the acknowledgement'))),)
        if name.endswith('Plugin::join'):
            return (ReadyFut(ok(unit())),)
        return None

class StartupHarness:
    max_polls = 60
    stop_on_first_violation = True
    def __init__(self, c):
        self.c = c
        self.reached_started = 0
        self.reached_refused = 0
    def configure(self, m):
        m.generic_bindings = {'R': 'Rpc'}
    def init(self, m):
        env = StartupEnv()
        m.st.env = env
        for v in INT_OPTS.values():
            m.pc.append(sym.in_range(sym.var(v), I64))
        body = self.c.body('main::{closure#0}') if False else None
        mainfn = self.c.prog.prog.get('main::{closure#0}')
        if mainfn is None:
            raise Unsupported('main::{closure#0} not in the dump')
        # the async main body is created by `main` as a coroutine literal: build it directly
        co = Adt('{async fn body of main()}', 'variant#0', {}, [], meta=('created_in', 'main'))
        m.st.roots['main_body'] = mainfn.name
        m.st.sched.new_task('main', MainFuture(mainfn.name))
    def env_transitions(self, m):
        return m.st.env.transitions(m)
    def after_step(self, m, label):
        pass
    def on_quiescent(self, m):
        st = m.st
        env = st.env
        t = st.sched.tasks[0]
        o = {k: sym.var(v) for k, v in INT_OPTS.items()}
        U16, U32, U64 = sym.INT_TYPES['u16'], sym.INT_TYPES['u32'], sym.INT_TYPES['u64']
        valid = sym.and_(sym.in_range(o['trampoline-cltv-delta'], U16), sym.in_range(o['trampoline-policy-cltv-delta'], U16),
                         sym.gt(o['trampoline-policy-cltv-delta'], o['trampoline-cltv-delta']),
                         sym.in_range(o['trampoline-policy-fee-base'], U32), sym.in_range(o['trampoline-policy-fee-per-satoshi'], U32),
                         sym.in_range(o['trampoline-mpp-timeout'], U64), sym.in_range(o['trampoline-payment-timeout'], U64))
        if t.status == 'panicked':
            raise Violation('startup-panicked', {'panic': t.panic}, 'main', 'panic')
        if t.status != 'done':
            raise Violation('startup-stuck', {'status': t.status, 'events': [list(map(str, e)) for e in st.events[-8:]]}, 'main', 'stuck')
        if env.started is None:
            self.reached_refused += 1
            mdl = m.violation_model(valid)
            if mdl is not None:
                raise Violation('refused-valid-configuration', {'model': model_public(mdl)}, 'main.validate', 'refused')
            return
        self.reached_started += 1
        mdl = m.violation_model(sym.not_(valid))
        if mdl is not None:
            raise Violation('started-with-invalid-configuration', {'model': model_public(mdl)}, 'main.validate', 'accepted')
        state = env.started
        mgr = deref_val(state.fields[1].fields[0]) if isinstance(state.fields[1], Adt) else None
        params = deref_val(mgr.fields[0].fields[0])
        names = params.names
        g = lambda n: params.fields[names.index(n)]
        pol = g('routing_policy')
        prov = deref_val(g('payment_provider').fields[0])
        pay = o['trampoline-payment-timeout']
        conds = {
            'cltv_delta': sym.eq(g('cltv_delta'), o['trampoline-cltv-delta']),
            'policy.cltv_expiry_delta': sym.eq(pol.fields[2], o['trampoline-policy-cltv-delta']),
            'policy.fee_base_msat': sym.eq(pol.fields[0], o['trampoline-policy-fee-base']),
            'policy.fee_proportional_millionths': sym.eq(pol.fields[1], o['trampoline-policy-fee-per-satoshi']),
            'mpp_timeout': sym.eq(lib_std.dur_ns(g('mpp_timeout')), sym.mul(o['trampoline-mpp-timeout'], lib_std.NANOS)),
            'allow_self_route_hints': sym.eq(g('allow_self_route_hints'), sym.not_(sym.var('o_noself', 'B'))),
            'retry_for': sym.eq(prov.fields[0], sym.ite(sym.gt(pay, 65535), 65535, pay)),
            'xpay': sym.eq(prov.fields[2], sym.var('o_xpay', 'B')),
        }
        for nm, cnd in conds.items():
            mdl = m.violation_model(sym.not_(cnd))
            if mdl is not None:
                raise Violation('configuration-not-applied', {'field': nm, 'model': model_public(mdl)}, 'main.apply', nm)

class MainFuture:
    """The coroutine of `async fn main`: polled through its lowered body."""
    def __init__(self, body_name):
        self.body_name = body_name
        self.co = Adt('{async fn body of main()}', 'variant#0', {}, [])
    def poll(self, m, ref, cx):
        body = m.prog.prog.get(self.body_name)
        return m.call_body(body, [Adt('Pin', None, {0: Ref(self, 'co')}), cx])
    def get(self, k, d=None):
        return getattr(self, k, d)
    def __setitem__(self, k, v):
        setattr(self, k, v)

def native_check(cex):
    d = cex['detail']
    mdl = d.get('model', {})
    opts = {k: int(mdl.get(v, 0)) for k, v in INT_OPTS.items()}
    flags = {k: bool(mdl.get(v, False)) for k, v in BOOL_OPTS.items()}
    from .. import native_plugin
    if d.get('field') == 'retry_for':
        # the provider is constructed by main with Duration::from_secs(payment timeout): observe the pay RPC it issues
        t = max(0, min(opts['trampoline-payment-timeout'], 2 ** 63))
        o = replay.run('provider', {'kind': 'pay', 'steps': [{'method': 'pay', 'outcome': 'complete'}], 'xpay': flags['trampoline-xpay'],
                                    'request': {'max_fee': '1', 'max_delta': '1', 'retry_for': str(t)}}, timeout=120)
        seen = None
        for e in o.get('rpc_log', []):
            if e.get('event') == 'call' and e.get('method') == 'pay':
                seen = e.get('params', {}).get('retry_for')
        exp = min(t, 65535)
        return {'reproduced': seen is not None and seen != exp, 'native': {'retry_for_sent': seen, 'expected': exp},
                'why': 'pay RPC carried retry_for=%s for a configured timeout of %d s (expected %d)' % (seen, t, exp)}
    try:
        o = native_plugin.startup(opts, flags)
    except Exception as e:
        return {'reproduced': False, 'native': {'error': repr(e)}, 'why': 'could not run the plugin binary'}
    U16, U32, U64 = 65535, 2 ** 32 - 1, 2 ** 64 - 1
    valid = (0 <= opts['trampoline-cltv-delta'] <= U16 and 0 <= opts['trampoline-policy-cltv-delta'] <= U16
             and opts['trampoline-policy-cltv-delta'] > opts['trampoline-cltv-delta'] and 0 <= opts['trampoline-policy-fee-base'] <= U32
             and 0 <= opts['trampoline-policy-fee-per-satoshi'] <= U32 and 0 <= opts['trampoline-mpp-timeout'] <= U64 and 0 <= opts['trampoline-payment-timeout'] <= U64)
    if o.get('outcome') != 'ok':
        return {'reproduced': False, 'native': o, 'why': 'native startup replay failed'}
    if bool(o.get('started')) != valid:
        return {'reproduced': True, 'native': o, 'why': 'started=%s but the configuration is %s' % (o.get('started'), 'valid' if valid else 'invalid')}
    if valid and o.get('started'):
        exp = {'cltv_delta': opts['trampoline-cltv-delta'], 'policy_delta': opts['trampoline-policy-cltv-delta'], 'base': opts['trampoline-policy-fee-base'],
               'ppm': opts['trampoline-policy-fee-per-satoshi'], 'retry_for': min(opts['trampoline-payment-timeout'], 65535), 'xpay': flags['trampoline-xpay']}
        got = o.get('applied', {})
        bad = {k: (got.get(k), v) for k, v in exp.items() if k in got and got.get(k) != v}
        if bad:
            return {'reproduced': True, 'native': o, 'why': 'applied values differ: %s' % bad}
    return {'reproduced': False, 'native': o, 'why': 'native startup behaves as specified for these values'}

def main(tier, seed, args):
    rep = Report(PID, tier, seed, 'proof')
    c = ctx('on')
    rep.bounds = {'options': 'all i64 values of the six integer options, both values of the two flags', 'pay_requests': 'retry_for / maxfee / maxdelay / amount symbolic over their full ranges, xpay on and off, 1 part', 'outside': 'parsing of option values by cln_plugin (ConfiguredPlugin::option is a contract: it returns the configured value); e-mail options absent'}
    rep.assumptions = ['lightningd passes integers for integer options', 'ConfiguredPlugin::option returns the configured value (contract)', 'getinfo answers']
    rep.trusted = ['mirsym', 'z3', 'tokio contracts', 'node model (getinfo)']
    h = StartupHarness(c)
    ex = run_explorer(rep, c, h, 'startup', max_states=20000)
    rep.parts['startup'].update({'paths_started': h.reached_started, 'paths_refused': h.reached_refused})
    if not ex.violations and (h.reached_started == 0 or h.reached_refused == 0):
        rep.inconclusive.append('vacuity guard: started paths=%d refused paths=%d' % (h.reached_started, h.reached_refused))
    rep.nontrivial.add(('started', h.reached_started))
    rep.nontrivial.add(('refused', h.reached_refused))
    for v, trail, m in ex.violations:
        cex = {'property': PID, 'kind': v.kind, 'detail': v.detail, 'trail': trail.to_list(), 'replay_kind': 'startup'}
        nat = native_check(cex)
        cex['native'] = nat
        path = save_cex(PID, cex)
        if nat['reproduced']:
            rep.violations.append({'replay': path, 'role': v.role, 'summary': '%s %s | native: %s' % (v.kind, json.dumps(v.detail)[:300], nat['why'])})
        else:
            rep.inconclusive.append('counterexample %s did not reproduce natively (%s): %s' % (v.kind, nat['why'], path))
    rep.obligations += 1
    rep.discharged += 0 if (ex.violations or ex.inconclusive) else 1
    if not rep.violations:
        # "runs with exactly those values": what the provider holds is what it puts into every pay request -- retry time,
        # fee budget, delay budget, for both settings of the xpay flag (the request check of C16, request fields symbolic)
        from . import c16
        for xpay in (False, True):
            h = c16.PayHarness(c, xpay, 0, 1, ('complete', 'failed'))
            name = 'values applied to pay requests[xpay=%s]' % xpay
            ex2 = run_explorer(rep, c, h, name, max_states=100000)
            c16.report(rep, name, ex2, xpay, pid=PID)
    if not rep.violations:
        from .c04 import height_use_stage
        height_use_stage(rep, PID, c)
    finish(rep, [c], './check C19 --tier ' + tier)

def replay_cex(path):
    cex = json.load(open(path))
    if 'script' in cex and 'steps' in cex.get('script', {}) and cex.get('replay_kind') != 'provider':
        from . import scen_common
        return scen_common.replay_cex(PID, path)
    if cex.get('replay_kind') == 'provider':
        from . import c16
        return c16.replay_cex(path, PID)
    nat = native_check(cex)
    print(json.dumps(nat, indent=1))
    if nat['reproduced']:
        print('VIOLATION property=%s replay=%s' % (PID, path))
        return 1
    return 0
