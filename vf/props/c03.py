"""C03 — pay only when fully covered, for the right amount, within the held budget."""
import json
from .. import sym, replay
from ..sym import T
from ..values import Adt, Ref, Seq, Cell
from ..harness import ctx, Report, finish, save_cex, match_known
from ..sched import Explorer, Violation
from ..intrinsics import is_variant
from ..scenario import (Scenario, HtlcSpec, InvoiceSpec, held_htlcs, registered_htlcs, std_htlcs, U64, U32, U16, I64, MAX_MSAT)
from ..env_node import field
from .c20 import run_explorer
from . import common, scen_common
from ..monitors import Coverage

PID = 'C03'

class PayBudgetMonitor:
    """Evaluated at every `pay` RPC call event and at every HTLC response."""
    def __init__(self, amountless):
        self.amountless = amountless
    def after_step(self, m, sc, label, new):
        st = m.st
        env = st.env
        for ev in new:
            if ev[0] == 'rpc_call' and ev[2] == 'pay':
                self.check_pay(m, sc, env.calls[ev[1]])
    def check_pay(self, m, sc, call):
        st = m.st
        specs = {s.idx: s for s in st.roots['specs']}
        held = registered_htlcs(m)
        st.roots['c03_counted'] = list(held)
        total_held = 0
        for k in held:
            total_held = sym.add(total_held, specs[k].amount)
        inv = sc.cfg['invoices'][0]
        deliver = inv.amount if inv.amount is not None else sym.var('tlv_amount')
        base, ppm, _d = st.roots['policy']
        req = call.args
        mf = field(m, req, 'maxfee')
        am = field(m, req, 'amount_msat')
        conds = {}
        # required = deliver + base + floor(deliver*ppm/1e6), exact
        q = m.divrem('Div', m.mul(deliver, ppm), 1000000, None)
        conds['held covers amount + policy fee'] = sym.ge(total_held, sym.add(sym.add(deliver, base), q))
        if is_variant(mf, 'Some'):
            conds['fee budget <= held - amount'] = sym.le(mf.fields[0].fields[0], sym.sub(total_held, deliver))
        else:
            conds['fee budget present'] = False
        if inv.amount is not None:
            conds['amount argument absent for fixed-amount invoice'] = is_variant(am, 'None')
        else:
            conds['amount argument == sender-declared amount'] = is_variant(am, 'Some') and sym.eq(am.fields[0].fields[0], deliver)
        st.roots['c03_pay_checks'] = st.roots.get('c03_pay_checks', 0) + 1
        for name, cnd in conds.items():
            bad = sym.not_(cnd)
            mdl = m.violation_model(bad)
            if mdl is not None:
                m.pc.append(bad)
                raise Violation('pay-budget', {'clause': name, 'held_htlcs': held,
                                               'model': {k: v for k, v in mdl.items() if '!' not in k},
                                               'maxfee': str(sym.evaluate(mf.fields[0].fields[0], mdl)) if is_variant(mf, 'Some') else None,
                                               'held_total': str(sym.evaluate(total_held, mdl))}, 'lifecycle.pay', name)
    def is_terminal(self, m, sc):
        # nothing of C03 is left to check once a pay command has returned to the plugin
        return any(c.method == 'pay' and c.state == 'consumed' for c in m.st.env.calls)
    def on_decided(self, m, sc, k, ev):
        env = m.st.env
        running = [c for c in env.calls if c.method == 'pay' and c.state in ('called',)]
        if running and k in m.st.roots.get('c03_counted', []):
            raise Violation('answered-while-paying', {'htlc': k}, 'htlc.response', 'before-pay-completes')

def build(c, n, amountless, tier, with_tlv=False):
    H = sym.var('H')
    pc = []
    inv_amount = None if amountless else sym.var('inv_amount')
    inv = InvoiceSpec(1, H, inv_amount)
    specs = std_htlcs(pc, n, H)
    if amountless or with_tlv:
        bs = [sym.var('ta%d' % i) for i in range(8)]
        tot = 0
        for b in bs:
            pc.append(sym.and_(sym.le(0, b), sym.le(b, 255)))
            tot = sym.add(sym.mul(tot, 256), b)
        pc.append(sym.eq(sym.var('tlv_amount'), tot))
        for s in specs:
            s.tlv_amount = bs
    cfg = dict(htlcs=specs, invoices=[inv], store_init='free_absent', max_parts=1, pay_outcomes=('complete',),
               mpp_timeout_s=60, timers=True, deliver_in_order=True)
    return cfg, pc

def main(tier, seed, args):
    rep = Report(PID, tier, seed, 'model_checking')
    c = ctx('on')
    ns = (1, 2) if tier == 'quick' else (1, 2, 3)
    rep.bounds = {'htlcs_per_hash': max(ns), 'hashes': 1, 'parts': '1 (amount clauses) / 2 (held-until-fate-known clause)', 'invoice_amount': 'present (symbolic u64) and absent (8 symbolic TLV bytes)',
                  'amounts': 'each HTLC amount in [0, 21e6 BTC]; forward_msat / total_msat full u64; policy full u32/u32/u16',
                  'outside': 'more HTLCs than stated; restarts (C02/C05 harnesses)'}
    rep.assumptions = ['a single HTLC amount does not exceed the money supply (2.1e18 msat), so the running sum cannot overflow u64',
                       'node model for datastore/pay (env_node.py)', 'tokio contracts (lib_tokio.py)']
    rep.trusted = ['mirsym', 'z3', 'node model', 'tokio/futures/std contracts']
    for n in ns:
        for amountless, with_tlv in ((False, False), (True, False), (False, True)):
            if n == 3 and amountless:
                continue
            if with_tlv and n > (1 if tier == 'quick' else 2):
                continue
            cfg, pc = build(c, n, amountless, tier, with_tlv)
            name = 'scenario[%d htlcs,%s invoice%s]' % (n, 'amountless' if amountless else 'fixed-amount', '+amount tlv' if with_tlv else '')
            cov = Coverage(['pay'])
            sc = scen_common.ScenarioWithPc(c, cfg, [PayBudgetMonitor(amountless), cov], pc)
            ex = run_explorer(rep, c, sc, name, max_states=300000, max_depth=600, time_budget=(400 if tier == 'quick' else 3000))
            scen_common.report(rep, PID, name, ex, sc)
            if cov.missing() and not ex.violations:
                rep.inconclusive.append('%s: vacuity guard: never reached %s' % (name, cov.missing()))
            if ex.violations:
                break
        if rep.violations:
            break
    if not rep.violations:
        # last clause: the HTLCs counted stay held until the payment's fate is known -- a multi-part outgoing payment
        # whose pay command ends without a final answer, parts failing with different codes in any order
        from . import scen_payflow
        from ..monitors import NoFailWhileLive
        cfg, pc = scen_payflow.flow_cfg(1, 'free_absent', max_parts=2, max_total_parts=2, pay_outcomes=('error:210', 'pending'),
                                        wait_fail_codes=(203, 204))
        cov = Coverage(['pay'])
        cfgs = [('held until the fate is known[1 htlc, 2 outgoing parts]', cfg, pc, [NoFailWhileLive(), cov], {})]
        # ... and after a restart: the replayed HTLC is neither failed nor used to fund a second payment while a part of
        # the interrupted attempt (two earlier parts, one per attempt group) is still in flight
        from ..monitors import OneAttempt
        cfg2, pc2 = scen_payflow.flow_cfg(1, 'pending', pending_parts=2, old_parts_in_groups=True, wait_fail_codes=(203, 204),
                                          max_total_parts=3, pay_outcomes=('complete',), parts_can_fail=True)
        cfgs.append(('held until the fate is known[restart, 2 earlier parts]', cfg2, pc2, [NoFailWhileLive(), OneAttempt()], {}))
        # ... and a restart whose interrupted attempt turns out failed, with the set replayed part by part: the new
        # attempt is started only once the replayed parts cover amount + fee again (seeded change C03-9)
        cfg3, pc3 = scen_payflow.flow_cfg(2, 'pending', amounts=[503000, 503000], parts_can_fail=True, pay_outcomes=('complete',),
                                          max_total_parts=2)
        cov3 = Coverage(['pay'])
        cfgs.append(('covered again before the retry[restart, failed attempt, 2 replayed parts]', cfg3, pc3,
                     [PayBudgetMonitor(False), cov3], {}))
        scen_common.run_configs(rep, PID, c, cfgs, 400 if tier == 'quick' else 3000)
    finish(rep, [c], './check C03 --tier ' + tier)

def replay_cex(path):
    return scen_common.replay_cex(PID, path)
