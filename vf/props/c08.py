"""C08 — write-ahead: the durable record never understates the outgoing payment."""
from ..harness import ctx, Report, finish
from ..monitors import WriteAhead, Coverage
from . import scen_common, scen_payflow

PID = 'C08'

def main(tier, seed, args):
    rep = Report(PID, tier, seed, 'model_checking')
    c = ctx('on')
    rep.bounds = {'htlc_sets': '1 set; 2 consecutive sets (old lifecycle finishing bookkeeping while the new one starts)', 'parts': '1 per pay command + 1 earlier (restart configuration: 2 earlier parts, codes 203/204)', 'pay_outcomes': 'complete, pending, failed, failed with a non-empty / empty partial-completion warning, RPC error 210, RPC error without a node error code',
                  'crash': 1, 'write_faults': '1 datastore write rejected, or applied but reported failed',
                  'outside': 'more lifecycles / parts / faults'}
    rep.assumptions = ['node model of the datastore (modes, generations)', 'every applied environment effect is a possible crash image: the invariant is evaluated after each']
    rep.trusted = ['mirsym', 'z3', 'node model', 'tokio contracts']
    budget = 400 if tier == 'quick' else 3000
    configs = []
    for name, cfg, pc, kw in scen_payflow.standard_configs(tier, two_sets=('paid', 'failed'), crash=True, write_faults=1, fault_methods=()):
        configs.append((name, cfg, pc, [WriteAhead(), Coverage(['ds_write'] if 'succeeded' not in name else ['response:Resolve'])], kw))
    scen_common.run_configs(rep, PID, c, configs, budget)
    finish(rep, [c], './check C08 --tier ' + tier)

def replay_cex(path):
    return scen_common.replay_cex(PID, path)
