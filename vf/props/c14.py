"""C14 — payments for different hashes are isolated from each other."""
from .. import sym
from ..sym import T
from ..harness import ctx, Report, finish
from ..sched import Violation
from ..intrinsics import is_variant
from ..scenario import InvoiceSpec, HtlcSpec, std_htlcs, resp_is
from ..monitors import LockDiscipline, NoPanicNoHang, Coverage, raise_if, specs_of
from ..env_node import field, preimage_of
from . import scen_common

PID = 'C14'

def two_hash_cfg(**kw):
    HA, HB = sym.var('HA'), sym.var('HB')
    pc = [sym.ne(HA, HB)]
    invs = [InvoiceSpec(1, HA, 1000000), InvoiceSpec(2, HB, 2000000)]
    specs = [HtlcSpec(0, invoice=0, hash=HA, amount=1006000, forward='amount', total=1006000, cltv_expiry=3000, cltv_rel=1500),
             HtlcSpec(1, invoice=1, hash=HB, amount=2012000, forward='amount', total=2012000, cltv_expiry=2500, cltv_rel=1500)]
    cfg = dict(htlcs=specs, invoices=invs, store_init='free_absent', max_parts=1, pay_outcomes=('complete',), policy=(1000, 5000, 1008),
               cltv_delta=34, height=100, deliver_in_order=True, max_total_parts=2, parts_can_fail=False)
    cfg.update(kw)
    return cfg, pc

class FrozenA(scen_common.ScenarioWithPc):
    """Payment A (invoice 0) is frozen at one of its RPCs or on its timer (a choice made at init);
    payment B must be unaffected."""
    sequential = True
    def enabled_filter(self, m, trs):
        if self.sequential:
            # keep delivery of htlc1 lazy (the generic eager-delivery reduction would defeat the sequencing)
            dl = [t for t in trs if t[2] == 'deliver htlc0']
            if dl:
                return dl[:1]
            lins = [t for t in trs if t[2].startswith('lin ')]
            if lins:
                return [t for t in trs if t[0] == 'env' and t[2].startswith(('lin ', 'part', 'pay#', 'CRASH'))]
            return trs
        return scen_common.ScenarioWithPc.enabled_filter(self, m, trs)
    def init(self, m):
        scen_common.ScenarioWithPc.init(self, m)
        fz = getattr(self, 'fixed_freeze', None)
        m.st.roots['freeze_at'] = fz if fz is not None else m.choose(6, 'freeze A at its n-th RPC (5 = on its timer)')
        m.st.roots['lc_of'] = {}
    def owner_of_call(self, m, c):
        return m.st.roots['lc_of'].get(c.task)
    def env_transitions(self, m):
        st = m.st
        out = []
        fz = st.roots['freeze_at']
        calls_a = [c for c in st.env.calls if st.roots['lc_of'].get(c.task) == 0 and c.state != 'new']
        frozen_cid = calls_a[fz].cid if fz < 5 and len(calls_a) > fz else None
        for lab, f in scen_common.ScenarioWithPc.env_transitions(self, m):
            if frozen_cid is not None and (lab.endswith('#%d' % frozen_cid) or lab.startswith('pay#%d ' % frozen_cid)):
                continue
            if lab.startswith('fire '):
                # A's timer never fires when A is frozen on it; B's timers are irrelevant (B completes)
                tl = lab[5:]
                owner = None
                for t in st.timers:
                    if t.label == tl:
                        owner = st.roots['lc_of'].get(t.created_by)
                if owner == 0:
                    continue
            out.append((lab, f))
        if self.sequential:
            # quick tier: payment B only arrives once A is stuck at its freeze point (A's earlier steps interleave
            # with nothing); the thorough tier interleaves both payments freely
            others = [x for x in out if not x[0].startswith('deliver htlc1')]
            runnable = any(t.status == 'runnable' for t in st.sched.tasks)
            if others or runnable:
                out = others
        return out

class Isolation:
    def after_step(self, m, sc, label, new):
        st = m.st
        specs = specs_of(m)
        for ev in new:
            if ev[0] == 'spawn':
                k = st.roots['task_of'].get(ev[1])
                if k is not None:
                    st.roots['lc_of'][ev[2]] = specs[k].invoice
            if ev[0] == 'rpc_call':
                c = st.env.calls[ev[1]]
                owner = st.roots['lc_of'].get(c.task)
                if owner is None:
                    continue
                h = sc.cfg['invoices'][owner].hash
                # keying: every datastore key / sendpay query of a lifecycle names its own hash
                if c.method in ('datastore', 'listdatastore'):
                    keyv = field(m, c.args, 'key')
                    keyv = keyv.fields[0] if is_variant(keyv, 'Some') else keyv
                    toks = [s.tag for s in keyv.items if s.tag is not None and isinstance(s.tag, (T, int))]
                    for t in toks:
                        raise_if(m, sym.ne(t, h), 'foreign-key', {'method': c.method, 'owner': owner}, 'store.key', 'other-hash')
                if c.method == 'pay':
                    mine = [k for k in specs if specs[k].invoice == owner]
                    held = sum(specs[k].amount for k in mine)
                    mf = field(m, c.args, 'maxfee')
                    amt = sc.cfg['invoices'][owner].amount
                    raise_if(m, sym.gt(mf.fields[0].fields[0], held - amt), 'pooled-amounts', {'owner': owner}, 'lifecycle.pay', 'budget-from-other-hash')
    def on_quiescent(self, m, sc):
        st = m.st
        # B (htlc 1) is answered with its own preimage whatever happens to A
        r = st.roots['responses'].get((st.roots['epoch'], 1))
        if r is None:
            raise Violation('other-hash-delayed', {'frozen_at': st.roots.get('freeze_at'), 'events': [list(map(str, e)) for e in st.events[-10:]]},
                            'isolation', 'B-unanswered-while-A-frozen')
        if not resp_is(r, 'Resolve'):
            raise Violation('other-hash-altered', {'response': r.variant}, 'isolation', 'B-outcome')

def main(tier, seed, args):
    rep = Report(PID, tier, seed, 'model_checking')
    c = ctx('on')
    rep.bounds = {'hashes': 2, 'htlcs_per_hash': 1 if tier == 'quick' else 2, 'freeze_points': 'each of the first 5 RPCs of payment A, or its timer',
                  'lock_discipline': 'also checked on a single-hash scenario with 2 symbolic HTLCs, 3 concrete HTLCs (extra HTLCs while paying), and with 1 RPC fault on the fresh and on the restart path',
                  'outside': 'more hashes / HTLCs'}
    rep.assumptions = ['node + tokio contracts', 'a frozen RPC is one the node never answers']
    rep.trusted = ['mirsym', 'z3', 'node model', 'tokio contracts']
    budget = 400 if tier == 'quick' else 3000
    from .c06 import cfg_symbolic, cfg_concrete
    configs = []
    cfg, pc = cfg_symbolic(2)
    configs.append(('lock discipline[2 symbolic htlcs]', cfg, pc, [LockDiscipline(), Coverage(['pay'])], {}))
    cfg, pc = cfg_concrete([1006000, 1000, 1000])
    configs.append(('lock discipline[extra htlcs while paying]', cfg, pc, [LockDiscipline(), Coverage(['pay'])], {}))
    # error paths hold no lock either: restart with a failing wait for the interrupted attempt (retry pause), and a
    # failing datastore on the fresh path
    allm = ('datastore', 'listdatastore', 'listsendpays', 'waitsendpay')
    cfg, pc = cfg_concrete([1006000], store='pending', faults=1, fault_methods=allm, fault_codes=((-1, 'Rpc'), (None, 'General')))
    configs.append(('lock discipline[restart, 1 rpc fault]', cfg, pc, [LockDiscipline(), Coverage(['fault', 'timer'])], {}))
    cfg, pc = cfg_concrete([1006000], faults=1, fault_methods=allm, fault_codes=((-1, 'Rpc'), (None, 'General')))
    configs.append(('lock discipline[fresh, 1 rpc fault]', cfg, pc, [LockDiscipline(), Coverage(['fault'])], {}))
    # the block watcher's periodic height poll in flight (its getinfo answered late or never) while a payment runs
    cfg, pc = cfg_concrete([1006000], height_polls=1)
    configs.append(('lock discipline[height poll in flight]', cfg, pc, [LockDiscipline(), Coverage(['pay'])], {}))
    scen_common.run_configs(rep, PID, c, configs, budget)
    if not rep.violations:
        from .c20 import run_explorer
        cfg, pc = two_hash_cfg()
        sc = FrozenA(c, cfg, [LockDiscipline(), Isolation(), Coverage(['pay', 'response:Resolve'])], pc)
        sc.sequential = True
        name = 'two hashes, A frozen (B arrives when A is stuck)'
        ex = run_explorer(rep, c, sc, name, max_states=300000, max_depth=800, time_budget=budget)
        scen_common.report(rep, PID, name, ex, sc)
        if tier == 'thorough' and not rep.violations:
            # free interleaving of both payments, one run per freeze point of A (its first four RPCs).  A frozen at its fifth RPC or on its
            # timer with free interleaving did not finish (207 000 states in 15 min, 50 min): those stay sequential.
            for fz in range(4):
                cfg, pc = two_hash_cfg()
                sc = FrozenA(c, cfg, [LockDiscipline(), Isolation(), Coverage(['response:Resolve'])], pc)
                sc.sequential = False
                sc.fixed_freeze = fz
                name = 'two hashes, A frozen at its RPC #%d (free interleaving)' % fz
                ex = run_explorer(rep, c, sc, name, max_states=1000000, max_depth=800, time_budget=budget)
                scen_common.report(rep, PID, name, ex, sc)
                if rep.violations:
                    break
    finish(rep, [c], './check C14 --tier ' + tier)

def replay_cex(path):
    return scen_common.replay_cex(PID, path)
