"""Pieces shared by several property harnesses: translator validation against the repository's
own test vectors, second-solver cross-checks."""
import os
import re
import json
import subprocess
import time
from .. import sym, replay
from ..sym import T
from ..values import Adt, Ref, Seq, Cell, Slice
from ..machine import explore, Chooser, Panic, Unsupported
from ..harness import Inconclusive, OUT

U64 = sym.INT_TYPES['u64']

FEE_VECTORS = [  # (base, ppm, sender, invoice) -- from /repo/src/messages.rs fee_sufficient_tests + boundaries
    (0, 5000, 1005000, 1000000), (0, 5000, 1004999, 1000000), (0, 5000, 1005001, 1000000),
    (1000, 0, 1001000, 1000000), (1000, 0, 1000999, 1000000), (1000, 0, 1001001, 1000000),
    (1000, 5000, 1006000, 1000000), (1000, 5000, 1005999, 1000000), (1000, 5000, 1006001, 1000000),
    (0, 1, 999999, 999999), (0, 1, 1000000, 1000000), (0, 2, U64.hi, U64.hi // 2 + 1),
    (0, 2, U64.hi, U64.hi // 2), (0, 0, 0, 0), (4294967295, 4294967295, U64.hi, 1), (1, 1, 5, 7),
]

def repo_fee_vectors():
    """Parse the (base, ppm, sender, invoice, expected) tuples of the repository's own test macro, if present."""
    out = []
    try:
        src = open('/repo/src/messages.rs').read()
    except OSError:
        return out
    for m in re.finditer(r'^\s*(\w+): \(([^)]*)\),\s*$', src, re.M):
        parts = [x.strip() for x in m.group(2).split(',')]
        if len(parts) != 5:
            continue
        try:
            vals = [eval(p.replace('_', '').replace('u64::MAX', str(U64.hi)).replace('/', '//'), {}) for p in parts[:4]]
        except Exception:
            continue
        out.append((m.group(1), vals, parts[4] == 'true'))
    return out

def concrete_call(c, body, args):
    m = c.machine(Chooser())
    try:
        return ('ok', m.call_body(body, args), m)
    except Panic as e:
        return ('panic', str(e.msg), m)

def validate_translator(rep, c, kinds):
    """Concrete inputs through mirsym and through the native build; results must agree."""
    from .c12 import policy_value
    cases = []
    expect = []
    if 'fee' in kinds:
        body = c.body('TrampolineRoutingPolicy::fee_sufficient')
        vecs = [(b, p, s, i) for (b, p, s, i) in FEE_VECTORS] + [tuple(v[:4]) for n, v, e in repo_fee_vectors()]
        for (b, p, s, i) in vecs:
            pol = policy_value(b, p, 0)
            out = concrete_call(c, body, [Ref(Cell(pol), 'v'), s, i])
            cases.append(('fee', {'base': b, 'ppm': p, 'total': str(s), 'amount': str(i)}))
            expect.append(out[:2])
    if 'encode' in kinds:
        body = c.body('HtlcFailReason::encode')
        for which, tag, f in (('TemporaryNodeFailure', 'node', None), ('TemporaryTrampolineFailure', 'trampoline', None),
                              ('TrampolineFeeOrExpiryInsufficient', 'fee', (1, 2, 3)),
                              ('TrampolineFeeOrExpiryInsufficient', 'fee', (4294967295, 0, 65535)),
                              ('TrampolineFeeOrExpiryInsufficient', 'fee', (0x01020304, 0x0a0b0c0d, 0x1122))):
            fields = {0: policy_value(*f)} if f else {}
            out = concrete_call(c, body, [Ref(Cell(Adt('messages::HtlcFailReason', which, fields)), 'v')])
            inp = {'reason': tag}
            if f:
                inp.update({'base': f[0], 'ppm': f[1], 'delta': f[2]})
            cases.append(('encode', inp))
            expect.append((out[0], bytes(out[1].items).hex() if out[0] == 'ok' else out[1]))
    obs = replay.batch(cases, 'dev')
    bad = 0
    for (kind, inp), exp, o in zip(cases, expect, obs):
        if exp[0] == 'panic':
            same = o.get('outcome') == 'panic'
        else:
            same = o.get('outcome') == 'ok' and o.get('value') == exp[1]
        if not same:
            bad += 1
            rep.inconclusive.append('translator validation mismatch on %s %s: mirsym=%r native=%r' % (kind, inp, exp, o))
    rep.validated += len(cases) - bad
    rep.parts['translator_validation_' + '_'.join(kinds)] = {'vectors': len(cases), 'mismatches': bad}

def cross_check_fee(rep):
    """Re-decide the fee equivalence (hand-independent SMT-LIB2 export of the same obligations)
    with cvc5 and the z3 4.8.12 / 5.1.0 command-line binaries."""
    # handled by exporting the obligations recorded in rep.extra['smt2'] if any
    files = rep.extra.pop('smt2_files', [])
    res = []
    for f in files:
        for solver in (['cvc5', '--lang', 'smt2', '--tlimit=120000'], ['/usr/bin/z3', '-T:120'], ['z3-new', '-T:120']):
            t0 = time.time()
            try:
                p = subprocess.run(solver + [f], stdout=subprocess.PIPE, stderr=subprocess.PIPE, text=True, timeout=150)
                out = p.stdout.strip().split('\n')[0] if p.stdout.strip() else 'empty'
                if '(error' in p.stdout or '(error' in p.stderr:
                    out = 'error'
            except (subprocess.TimeoutExpired, OSError) as e:
                out = 'timeout'
            res.append({'file': os.path.basename(f), 'solver': solver[0], 'answer': out, 's': round(time.time() - t0, 2)})
            if out not in ('unsat',):
                rep.inconclusive.append('second solver %s answered %s on %s' % (solver[0], out, f))
    rep.parts['second_solver'] = res

def run_gate_parts(rep, pid, tier, seed, cs):
    """Scenario-level clauses (policy carried by every fee/expiry failure; first-HTLC gate)."""
    try:
        from . import scenario_gate
    except ImportError:
        rep.parts['gate'] = 'not built yet'
        return
    scenario_gate.run(rep, pid, tier, seed, cs)
