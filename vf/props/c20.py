"""C20 — chain height never decreases and catches up within one poll interval."""
import json
from .. import sym, replay
from ..sym import T
from ..values import Adt, Ref, Seq, Cell, Opaque, unit
from ..machine import Panic, Unsupported, norm_callee
from ..harness import ctx, Report, finish, Inconclusive, save_cex, match_known
from ..sched import Explorer, Violation
from ..intrinsics import is_variant, some, none
from .. import lib_std, lib_bytes, lib_tokio, env_node
from ..lib_tokio import TMutex, MpscSender, MpscReceiver, Chan
from ..env_node import NodeEnv
from . import common

PID = 'C20'
U32 = sym.INT_TYPES['u32']

def arc(v):
    return Adt('Arc', None, {0: Ref(Cell(v), 'v')})

class StepHarness:
    """(a) one update_height step from an arbitrary stored height."""
    max_polls = 20
    def __init__(self, c, spurious=False):
        self.c = c
        self.spurious = spurious
        self.checked = 0
    def init(self, m):
        old, new = sym.var('old'), sym.var('new')
        m.pc.extend([sym.in_range(old, U32), sym.in_range(new, U32)])
        mx = TMutex(old, 'height')
        m.st.mutexes.append(mx)
        m.st.roots['mx'] = mx
        m.st.sched.spurious = self.spurious
        body = self.c.body('update_height')
        fut = m.call_body(body, [new, arc(mx)])
        m.st.sched.new_task('update_height', fut)
    def env_transitions(self, m):
        return []
    def after_step(self, m, label):
        pass
    def on_quiescent(self, m):
        t = m.st.sched.tasks[0]
        mx = m.st.roots['mx']
        old, new = sym.var('old'), sym.var('new')
        if t.status != 'done':
            raise Violation('step-not-finished', {'status': t.status, 'panic': t.panic}, 'update_height', 'stuck')
        if mx.locked_by is not None:
            raise Violation('mutex-not-released', {}, 'update_height', 'guard')
        res = t.result
        stored = mx.cell.v
        exp_stored = sym.ite(sym.gt(new, old), new, old)
        conds = [sym.eq(stored, exp_stored)]
        if not is_variant(res, 'Ok'):
            raise Violation('step-returned-err', {}, 'update_height', 'result')
        opt = res.fields[0]
        if opt.variant == 'Some':
            conds.append(sym.and_(sym.gt(new, old), sym.eq(opt.fields[0], new)))
        else:
            conds.append(sym.le(new, old))
        bad = sym.not_(sym.and_(*conds))
        self.checked += 1
        if m.feasible(bad):
            mdl = m.solver.model(m.pc, bad)
            raise Violation('step-wrong', {'old': mdl.get('old'), 'new': mdl.get('new'), 'stored': str(sym.evaluate(stored, mdl)) if not isinstance(stored, int) else stored,
                                           'returned': opt.variant}, 'update_height', 'max')

class ConcurrentHarness:
    """(d) notifications and polls racing on the shared height: all interleavings at await granularity."""
    max_polls = 60
    def __init__(self, c, n_notif, n_polls, spurious):
        self.c = c
        self.n_notif = n_notif
        self.n_polls = n_polls
        self.spurious = spurious
    def init(self, m):
        c = self.c
        init_h = sym.var('h_init')
        m.pc.append(sym.in_range(init_h, U32))
        mx = TMutex(init_h, 'height')
        m.st.mutexes.append(mx)
        env = HeightEnv()
        m.st.env = env
        m.st.sched.spurious = self.spurious
        rpc = Adt('rpc::Rpc', None, {0: Seq([], 'str', tag='rpcfile')})
        bw = Adt('block_watcher::BlockWatcher', None, {0: arc(rpc), 1: arc(mx)}, ['rpc', 'current_height'])
        m.st.roots.update({'mx': mx, 'bw': bw, 'told': [], 'prev': init_h})
        nb = c.body('BlockWatcher::new_block')
        ph = c.body('poll_height')
        for i in range(self.n_notif):
            h = sym.var('n%d' % i)
            m.pc.append(sym.in_range(h, U32))
            blk = Adt('messages::BlockAdded', None, {0: h}, ['height'])
            fut = m.call_body(nb, [Ref(Cell(bw), 'v'), Ref(Cell(blk), 'v')])
            t = m.st.sched.new_task('new_block', fut)
            m.st.roots['told'].append(('task', t.tid, h))
        for i in range(self.n_polls):
            fut = m.call_body(ph, [arc(mx), arc(rpc)])
            t = m.st.sched.new_task('poll_height', fut)
            h = sym.var('p%d' % i)
            m.pc.append(sym.in_range(h, U32))
            env.poll_heights.append(h)
            m.st.roots['told'].append(('task', t.tid, h))
    def env_transitions(self, m):
        return m.st.env.transitions(m)
    def after_step(self, m, label):
        mx = m.st.roots['mx']
        cur = mx.cell.v
        prev = m.st.roots['prev']
        if m.feasible(sym.lt(cur, prev)):
            mdl = m.solver.model(m.pc, sym.lt(cur, prev))
            raise Violation('height-decreased', {'model': {k: v for k, v in mdl.items() if not k.startswith(('q!', 'r!'))},
                                                 'before': str(sym.evaluate(prev, mdl)), 'after': str(sym.evaluate(cur, mdl))},
                            'current_height', 'decrease')
        m.st.roots['prev'] = cur
    def on_quiescent(self, m):
        st = m.st
        mx = st.roots['mx']
        for t in st.sched.tasks:
            if t.status != 'done':
                raise Violation('task-stuck', {'task': t.name, 'status': t.status, 'panic': t.panic}, t.name, 'stuck')
        if mx.locked_by is not None:
            raise Violation('mutex-not-released', {}, 'height', 'guard')
        exp = sym.var('h_init')
        for kind, tid, h in st.roots['told']:
            # a failed poll told nothing
            if st.sched.tasks[tid].name == 'poll_height' and tid in st.env.failed_polls:
                continue
            exp = sym.ite(sym.gt(h, exp), h, exp)
        bad = sym.ne(mx.cell.v, exp)
        if m.feasible(bad):
            mdl = m.solver.model(m.pc, bad)
            raise Violation('height-not-max', {'model': {k: v for k, v in mdl.items() if '!' not in k},
                                               'stored': str(sym.evaluate(mx.cell.v, mdl)), 'expected': str(sym.evaluate(exp, mdl))},
                            'current_height', 'max')

class HeightEnv(NodeEnv):
    def __init__(self):
        NodeEnv.__init__(self)
        self.poll_heights = []
        self.next_poll = 0
        self.failed_polls = set()
        self.fault_methods = ()
    def lin_get_info(self, m, c):
        k = self.next_poll
        self.next_poll += 1
        self.height = self.poll_heights[k] if k < len(self.poll_heights) else 0
        NodeEnv.lin_get_info(self, m, c)
    def maybe_fault(self, m, c):
        r = NodeEnv.maybe_fault(self, m, c)
        if r is not None:
            self.failed_polls.add(c.task)
            self.next_poll += 1
        return r

class LoopHarness:
    """(c) the poll loop: each iteration waits exactly POLL_INTERVAL, then polls unconditionally;
    a failed poll does not leave the loop; shutdown leaves it."""
    max_polls = 80
    def __init__(self, c, iterations, faults):
        self.c = c
        self.iterations = iterations
        self.faults = faults
    def init(self, m):
        c = self.c
        init_h = sym.var('h_init')
        m.pc.append(sym.in_range(init_h, U32))
        mx = TMutex(init_h, 'height')
        m.st.mutexes.append(mx)
        env = HeightEnv()
        env.fault_budget = self.faults
        env.fault_methods = ('get_info',)
        env.fault_codes = ((-1, 'Rpc'), (None, 'General'))
        m.st.env = env
        for i in range(self.iterations + 1):
            h = sym.var('p%d' % i)
            m.pc.append(sym.in_range(h, U32))
            env.poll_heights.append(h)
        ch = Chan(1, 'shutdown')
        m.st.channels.append(ch)
        rpc = Adt('rpc::Rpc', None, {0: Seq([], 'str', tag='rpcfile')})
        fut = m.call_body(c.body('poll_forever'), [MpscReceiver(ch), arc(mx), arc(rpc)])
        m.st.sched.new_task('poll_forever', fut)
        m.st.roots.update({'mx': mx, 'shutdown': ch, 'iter': 0, 'shutdown_sent': False, 'log': []})
    def env_transitions(self, m):
        st = m.st
        out = list(st.env.transitions(m))
        # the timer of the current iteration may fire
        for t in st.timers:
            if t.polled and not t.fired and not t.dropped:
                def fire(m, lab=t.label):
                    for tt in m.st.timers:
                        if tt.label == lab:
                            tt.fired = True
                            m.event('timer_fired', lab)
                            m.st.sched.wake(tt.waiters)
                out.append(('fire ' + t.label, fire))
        if not st.roots['shutdown_sent'] and len(st.timers) >= self.iterations:
            def shut(m):
                ch = m.st.roots['shutdown']
                ch.q.append(unit())
                m.st.roots['shutdown_sent'] = True
                m.event('shutdown_sent')
                m.st.sched.wake(ch.rx_waiters)
            out.append(('shutdown', shut))
        return out
    def enabled_filter(self, m, trs):
        # bound: stop offering timer fires beyond the iteration budget
        if len(m.st.timers) > self.iterations:
            trs = [t for t in trs if not t[2].startswith('fire ')]
        return trs
    def after_step(self, m, label):
        st = m.st
        # every timer created by the loop has duration exactly POLL_INTERVAL (60 s)
        for t in st.timers:
            if t.dur != 60 * 1000000000:
                raise Violation('poll-interval', {'timer': t.label, 'duration_ns': str(t.dur)}, 'poll_forever', 'interval')
        # get_info calls == fired timers (+0/+1 in flight); never more polls than fired timers
        fired = sum(1 for t in st.timers if t.fired)
        calls = sum(1 for cc in st.env.calls if cc.method == 'get_info' and cc.state != 'new')
        if calls > fired:
            raise Violation('poll-without-timer', {'calls': calls, 'fired': fired}, 'poll_forever', 'order')
        task = st.sched.tasks[0]
        if task.status == 'panicked':
            raise Violation('poll-loop-panicked', {'panic': task.panic}, 'poll_forever', 'panic')
        if task.status == 'done' and not st.roots['shutdown_sent']:
            raise Violation('poll-loop-exited', {'events': [list(map(str, e)) for e in st.events[-12:]]}, 'poll_forever', 'exit')
    def on_quiescent(self, m):
        st = m.st
        task = st.sched.tasks[0]
        fired = sum(1 for t in st.timers if t.fired)
        calls = sum(1 for cc in st.env.calls if cc.method == 'get_info' and cc.state != 'new')
        if task.status == 'blocked':
            # blocked with nothing enabled: must be waiting in select on a fresh timer (iteration budget reached)
            if calls != fired:
                raise Violation('timer-fired-but-no-poll', {'calls': calls, 'fired': fired}, 'poll_forever', 'missed')
            live = [t for t in st.timers if t.polled and not t.fired and not t.dropped]
            if not live and not st.roots['shutdown_sent']:
                raise Violation('loop-stalled-without-timer', {'timers': len(st.timers)}, 'poll_forever', 'stall')
        # the stored height is the max of everything successfully polled
        exp = sym.var('h_init')
        k = 0
        for cc in st.env.calls:
            if cc.method != 'get_info' or cc.state == 'new':
                continue
            if is_variant(cc.result, 'Ok'):
                h = st.env.poll_heights[k]
                exp = sym.ite(sym.gt(h, exp), h, exp)
            k += 1
        bad = sym.ne(st.roots['mx'].cell.v, exp)
        if task.status in ('blocked', 'done') and m.feasible(bad):
            mdl = m.solver.model(m.pc, bad)
            raise Violation('height-not-max-after-polls', {'model': {k: v for k, v in mdl.items() if '!' not in k}}, 'poll_forever', 'max')

def static_facts(rep, c):
    """(b) only update_height writes through the height guard; new_block/poll_height reach it only via update_height."""
    writers, lockers, callers = [], [], []
    for b in c.prog.prog.bodies:
        if b.kind != 'fn':
            continue
        b.parse()
        for bb, blk in b.blocks.items():
            if not blk or blk[1].kind != 'call':
                continue
            cal = blk[1].callee
            n = norm_callee(cal)
            if 'MutexGuard' in cal and 'u32' in cal and n.endswith('deref_mut'):
                writers.append(b.name)
            if n.endswith('Mutex::lock') and 'Mutex::<u32>' in cal:
                lockers.append(b.name)
            if n.endswith('update_height') and not n.endswith('::update_height::{closure#0}'):
                callers.append(b.name)
    # update_height's own body, including closures nested in it (e.g. a `.then(|| ..)` doing the store)
    ok_w = bool(writers) and all(w.startswith('update_height::{closure#0}') for w in set(writers))
    ok_l = set(lockers) <= {'update_height::{closure#0}', 'block_watcher::<impl at src/block_watcher.rs:71:1: 71:36>::current_height::{closure#0}'} \
        or all(('update_height' in x or 'current_height' in x) for x in lockers)
    rep.oblige(ok_w)
    rep.oblige(ok_l)
    rep.parts['static_facts'] = {'guard_writers': sorted(set(writers)), 'height_lockers': sorted(set(lockers)),
                                 'update_height_callers': sorted(set(callers))}
    if not ok_w:
        # a structural fact, not a behaviour: the single-step proof no longer covers every write, so it is the concurrent
        # harness (which runs the writers' real code) that has to decide; nothing it finds -> inconclusive, not a violation
        rep.extra['unexpected_height_writers'] = sorted(set(writers))
    if not ok_l:
        rep.inconclusive.append('height mutex locked from unexpected bodies: %s' % sorted(set(lockers)))

def run_explorer(rep, c, h, name, **kw):
    ex = Explorer(c, h, seed=rep.seed, **kw)
    ex.explore()
    rep.states += ex.stats.states
    rep.transitions += ex.stats.transitions
    rep.paths += ex.stats.paths_in_steps
    rep.parts[name] = {'states': ex.stats.states, 'transitions': ex.stats.transitions, 'quiescent': ex.stats.quiescent,
                       'revisits': ex.stats.revisits, 'max_depth': ex.stats.max_depth}
    for n in ex.bodies:
        b = c.prog.prog.get(n)
        if b is not None:
            rep.bodies[n] = b.sha
    rep.intrinsics |= ex.intrinsics
    for s in ex.samples[:2]:
        rep.sample(dict(s, harness=name), cap=10)
    rep.inconclusive.extend('%s: %s' % (name, x) for x in ex.inconclusive[:5])
    rep.oblige(not ex.violations and not ex.inconclusive)
    if ex.stats.quiescent == 0 and not ex.violations:
        rep.inconclusive.append('%s: vacuous (no quiescent state reached)' % name)
    rep.nontrivial.add((name, ex.stats.states, ex.stats.quiescent))
    return ex

def report(rep, name, ex):
    for v, trail, m in ex.violations:
        cex = {'property': PID, 'harness': name, 'kind': v.kind, 'detail': v.detail, 'trail': trail.to_list(),
               'events': [list(map(str, e)) for e in m.events[-60:]], 'replay_kind': 'height'}
        nat = native_check(cex)
        cex['native'] = nat
        path = save_cex(PID, cex)
        if nat.get('reproduced'):
            k = match_known(PID, v.role, v.cause)
            if k:
                rep.known.append('%s/%s %s' % (v.role, v.cause, k.get('text', '')))
            else:
                rep.violations.append({'replay': path, 'summary': '%s: %s %s' % (name, v.kind, json.dumps(v.detail, default=str)[:300]), 'role': v.role})
        else:
            rep.inconclusive.append('%s: counterexample %s did not reproduce natively (%s): %s' % (name, v.kind, nat.get('why'), path))

def interleaved_events(cex, mdl):
    """Native event order from the model's trail.  Tasks 0..k-1 are the notifications n0..n(k-1), the following ones the
    polls p0...  First poll of a poll_height task = the periodic poll starts (its getinfo call goes out); the answer is
    handed over when the model polls that task again after `lin get_info` (natively an answer makes the task run at
    once); first poll of a new_block task = the notification is handled."""
    import re as _re
    n_notif = len([k for k in mdl if _re.match(r'^n\d+$', k)])
    ev = []
    seen = set()
    in_flight = None          # tid of the poll whose getinfo is outstanding
    answer_ready = False
    polls_answered = 0
    for stp in cex.get('trail', []):
        lab = stp['step']
        mm = _re.match(r'^poll (new_block|poll_height)#(\d+)$', lab)
        if mm:
            tid = int(mm.group(2))
            if mm.group(1) == 'new_block' and tid not in seen:
                seen.add(tid)
                ev.append({'op': 'notify', 'h': int(mdl.get('n%d' % tid, 0) or 0)})
            elif mm.group(1) == 'poll_height':
                if tid not in seen and in_flight is None:
                    seen.add(tid)
                    in_flight = tid
                    ev.append({'op': 'poll_start'})
                elif tid == in_flight and answer_ready:
                    ev.append({'op': 'poll_answer', 'h': int(mdl.get('p%d' % polls_answered, 0) or 0)})
                    polls_answered += 1
                    in_flight, answer_ready = None, False
        elif lab.startswith('lin get_info#') and in_flight is not None:
            answer_ready = True
    if in_flight is not None and answer_ready:
        ev.append({'op': 'poll_answer', 'h': int(mdl.get('p%d' % polls_answered, 0) or 0)})
    return ev

def native_check(cex):
    """Replay against the real BlockWatcher over the fake lightning-rpc socket."""
    kind = cex['kind']
    d = cex['detail']
    if kind in ('step-wrong', 'height-decreased', 'height-not-max'):
        mdl = d.get('model') or {'h_init': d.get('old'), 'n0': d.get('new')}
        script = {'init': int(mdl.get('h_init', mdl.get('old', 0)) or 0),
                  'notifications': [int(mdl[k]) for k in sorted(mdl) if k.startswith('n') and k[1:].isdigit()],
                  'polls': [int(mdl[k]) for k in sorted(mdl) if k.startswith('p') and k[1:].isdigit()]}
        o = replay.run('height', script)
        if not (o.get('outcome') == 'ok' and any(x['height'] != x['expected_max'] for x in o.get('observations', []))):
            # sequential delivery shows nothing: replay the model's interleaving (a poll in flight while notifications arrive)
            ev = interleaved_events(cex, mdl)
            if ev:
                script = {'init': script['init'], 'events': ev}
                o = replay.run('height', script)
        cexp = o.get('observations', [])
        bad = o.get('outcome') == 'ok' and any(x['height'] != x['expected_max'] for x in cexp)
        return {'reproduced': bool(bad), 'script': script, 'native': o, 'why': 'heights match the running maximum'}
    if kind in ('poll-loop-exited', 'poll-loop-panicked', 'timer-fired-but-no-poll', 'loop-stalled-without-timer', 'poll-interval',
                'poll-without-timer', 'height-not-max-after-polls'):
        o = replay.run('poll_loop', {'fail_first_periodic_poll': True, 'heights': [100, 105]}, timeout=300)
        bad = o.get('outcome') == 'ok' and not o.get('caught_up', True)
        return {'reproduced': bool(bad), 'native': o, 'why': 'poll loop kept polling'}
    return {'reproduced': False, 'why': 'no native replay for ' + kind}

def main(tier, seed, args):
    rep = Report(PID, tier, seed, 'model_checking')
    c = ctx('on')
    part = getattr(args, 'part', None)
    rep.bounds = {'step': 'none: all u32 x u32 (one inductive step)', 'concurrent': '2 notifications + 1 poll (quick) / 2 + 2 with spurious yields (thorough)',
                  'loop': '2 iterations, 1 failed poll (quick) / 3 iterations, 2 failed polls (thorough)'}
    rep.assumptions = ['tokio::sync::Mutex mutual exclusion and FIFO-agnostic wake-ups (lib_tokio.TMutex)',
                       'tokio timer accuracy and delivery of block_added notifications are contracts',
                       'get_info answers with an arbitrary u32 height or an error']
    rep.trusted = ['mirsym', 'z3', 'tokio Mutex/mpsc/sleep/select contracts', 'node model get_info']
    if not part or part == 'static':
        static_facts(rep, c)
    if not part or part == 'step':
        for sp in (False, True):
            h = StepHarness(c, sp)
            ex = run_explorer(rep, c, h, 'step' + ('+yield' if sp else ''))
            report(rep, 'step', ex)
    if not part or part == 'concurrent':
        cfgs = [(2, 1, False)] if tier == 'quick' else [(2, 1, True), (2, 2, False), (3, 1, False)]
        for nn, npol, sp in cfgs:
            h = ConcurrentHarness(c, nn, npol, sp)
            ex = run_explorer(rep, c, h, 'concurrent[%d notif,%d polls%s]' % (nn, npol, ',yield' if sp else ''), max_states=400000)
            report(rep, 'concurrent', ex)
    if not part or part == 'loop':
        it, fl = (2, 1) if tier == 'quick' else (3, 2)
        h = LoopHarness(c, it, fl)
        ex = run_explorer(rep, c, h, 'poll_loop[%d iterations,%d faults]' % (it, fl))
        report(rep, 'poll_loop', ex)
    if rep.extra.get('unexpected_height_writers') and not rep.violations:
        rep.inconclusive.append('height cell written outside update_height (%s) and no violating run found within the bounds'
                                % rep.extra['unexpected_height_writers'])
    if not rep.violations:
        from .c04 import height_use_stage
        height_use_stage(rep, PID, c)
    finish(rep, [c], './check C20 --tier ' + tier)

def replay_cex(path):
    cex = json.load(open(path))
    if cex.get('replay_kind') == 'manager' or 'script' in cex and 'steps' in cex.get('script', {}):
        from . import scen_common
        return scen_common.replay_cex(PID, path)
    nat = native_check(cex)
    print(json.dumps(nat, indent=1, default=str))
    if nat.get('reproduced'):
        print('VIOLATION property=%s replay=%s' % (PID, path))
        return 1
    return 0
