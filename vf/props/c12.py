"""C12 — fee check arithmetically exact; rejection carries the current policy."""
import os
import json
from .. import sym, replay
from ..sym import T
from ..values import Adt, Ref, Seq, Cell
from ..machine import explore, Panic
from ..harness import (ctx, Report, finish, Inconclusive, save_cex, match_known, load_known)
from .. import lib_std  # registers intrinsics
from . import common

PID = 'C12'
U64 = sym.INT_TYPES['u64']
U32 = sym.INT_TYPES['u32']
U16 = sym.INT_TYPES['u16']

def policy_value(base, ppm, delta):
    return Adt('messages::TrampolineRoutingPolicy', None, {0: base, 1: ppm, 2: delta},
               ['fee_base_msat', 'fee_proportional_millionths', 'cltv_expiry_delta'])

def reference(m, total, amount, base, ppm):
    """Exact predicate with every intermediate of the right-hand side required to fit in 64 bits
    (DESIGN 2.4).  Returns a bool term; adds the division lemma for its own quotient."""
    p = sym.mul(amount, ppm)
    q = sym.fresh('refq')
    r = sym.fresh('refr')
    lemma = sym.and_(sym.eq(p, sym.add(sym.mul(q, 1000000), r)), sym.le(0, r), sym.lt(r, 1000000), sym.le(0, q))
    rhs = sym.add(sym.add(amount, base), q)
    ref = sym.and_(sym.le(p, U64.hi), sym.le(sym.add(base, q), U64.hi), sym.le(rhs, U64.hi), sym.ge(total, rhs))
    return ref, lemma

def run_fee(rep, c, tier):
    body = c.body('TrampolineRoutingPolicy::fee_sufficient')
    total, amount = sym.var('total'), sym.var('amount')
    base, ppm = sym.var('base'), sym.var('ppm')
    dom = [sym.in_range(total, U64), sym.in_range(amount, U64), sym.in_range(base, U32), sym.in_range(ppm, U32)]

    def mk(ch):
        m = c.machine(ch)
        m.pc.extend(dom)
        return m

    def run(m):
        pol = policy_value(base, ppm, sym.var('delta'))
        return m.call_body(body, [Ref(Cell(pol), 'v'), total, amount])

    seen_true = seen_false = False
    for res in explore(mk, run, order_seed=rep.seed):
        m = res.machine
        rep.paths += 1
        rep.note_machine(m)
        rep.outcomes[res.outcome] = rep.outcomes.get(res.outcome, 0) + 1
        key = ('fee', c.overflow, res.outcome, tuple(res.trace))
        if res.outcome == 'infeasible':
            continue
        if res.outcome in ('unsupported', 'bound'):
            rep.inconclusive.append('fee_sufficient[%s]: %s' % (c.overflow, res.error))
            continue
        if res.outcome == 'panic':
            # obligation "no panic" fails: produce the model
            rep.oblige(False)
            model = c.solver.model(m.pc)
            report_fee_cex(rep, c, model, 'panic', str(res.error.msg))
            continue
        # ok path: result must equal the reference under the path condition
        ref, lemma = reference(m, total, amount, base, ppm)
        val = res.value
        neq = sym.ne(val, ref) if isinstance(val, T) or isinstance(ref, T) else (val != ref)
        q = c.solver.check(m.pc + [lemma], neq)
        rep.oblige(q == 'unsat')
        rep.nontrivial.add(key)
        if tier == 'thorough':
            # the same obligation as SMT-LIB2 text for the second solvers (common.cross_check_fee)
            d = os.path.join(os.path.dirname(os.path.dirname(os.path.dirname(os.path.abspath(__file__)))), 'out', PID, 'smt')
            os.makedirs(d, exist_ok=True)
            f = os.path.join(d, 'fee_%s_%02d.smt2' % (c.overflow, rep.paths))
            with open(f, 'w') as fh:
                fh.write(sym.to_smt2(m.pc + [lemma, neq]) + '\n')
            rep.extra.setdefault('smt2_files', []).append(f)
        # vacuity: both results reachable over all paths
        if c.solver.check(m.pc, sym.eq(val, True)) == 'sat':
            seen_true = True
        if c.solver.check(m.pc, sym.eq(val, False)) == 'sat':
            seen_false = True
        mdl = c.solver.model(m.pc)
        rep.sample({'harness': 'fee_sufficient', 'overflow_checks': c.overflow, 'decisions': res.labels,
                    'witness': {k: str(v) for k, v in mdl.items() if k in ('total', 'amount', 'base', 'ppm')},
                    'result_term': sym.show(val)})
        if q != 'unsat':
            model = c.solver.model(m.pc + [lemma], neq)
            report_fee_cex(rep, c, model, 'mismatch', 'result differs from the exact predicate')
    if not (seen_true and seen_false):
        rep.inconclusive.append('vacuity: fee_sufficient[%s] true reachable=%s false reachable=%s' % (c.overflow, seen_true, seen_false))

def exact_ref(total, amount, base, ppm):
    p = amount * ppm
    q = p // 1000000
    return p <= U64.hi and base + q <= U64.hi and amount + base + q <= U64.hi and total >= amount + base + q

def report_fee_cex(rep, c, model, kind, text):
    inp = {k: str(model[k]) for k in ('total', 'amount', 'base', 'ppm')}
    vals = {k: int(v) for k, v in inp.items()}
    expect = exact_ref(vals['total'], vals['amount'], vals['base'], vals['ppm'])
    obs = {}
    bad = False
    for prof in ('dev', 'release'):
        o = replay.run('fee', inp, prof)
        obs[prof] = o
        if o.get('outcome') == 'panic' or (o.get('outcome') == 'ok' and o.get('value') != expect):
            bad = True
    cex = {'property': PID, 'harness': 'fee_sufficient', 'overflow_checks': c.overflow, 'kind': kind,
           'text': text, 'input': inp, 'expected': expect, 'native': obs, 'replay_kind': 'fee'}
    path = save_cex(PID, cex)
    if not bad:
        rep.inconclusive.append('counterexample did not reproduce natively: %s (%s)' % (path, text))
        return
    role = 'fee_sufficient.final_sum'
    cause = 'u64-overflow:amount+fee'
    k = match_known(PID, role, cause)
    summary = 'fee_sufficient(%s): dev=%s release=%s expected=%s' % (inp, obs['dev'], obs['release'], expect)
    if k is not None:
        msg = '%s/%s %s' % (role, cause, k.get('text', ''))
        if msg not in rep.known:
            rep.known.append(msg)
    else:
        if not any(v.get('role') == role for v in rep.violations):
            rep.violations.append({'replay': path, 'summary': summary, 'role': role})

def run_encode(rep, c):
    body = c.body('HtlcFailReason::encode')
    base, ppm, delta = sym.var('base'), sym.var('ppm'), sym.var('delta')
    dom = [sym.in_range(base, U32), sym.in_range(ppm, U32), sym.in_range(delta, U16)]
    for which, head in (('TemporaryNodeFailure', [0x20, 2]), ('TemporaryTrampolineFailure', [0x20, 25]),
                        ('TrampolineFeeOrExpiryInsufficient', [0x20, 26])):
        def mk(ch):
            m = c.machine(ch)
            m.pc.extend(dom)
            return m
        def run(m):
            f = {0: policy_value(base, ppm, delta)} if which.startswith('TrampolineFee') else {}
            reason = Adt('messages::HtlcFailReason', which, f)
            return m.call_body(body, [Ref(Cell(reason), 'v')])
        for res in explore(mk, run, order_seed=rep.seed):
            m = res.machine
            rep.paths += 1
            rep.note_machine(m)
            rep.outcomes[res.outcome] = rep.outcomes.get(res.outcome, 0) + 1
            if res.outcome != 'ok':
                if res.outcome == 'panic':
                    rep.oblige(False)
                    rep.violations.append({'replay': save_cex(PID, {'harness': 'encode', 'reason': which, 'panic': str(res.error)}),
                                           'summary': 'encode panics', 'role': 'encode'})
                else:
                    rep.inconclusive.append('encode[%s]: %s' % (which, res.error))
                continue
            out = res.value
            if not isinstance(out, Seq):
                rep.inconclusive.append('encode returned %r' % (out,))
                continue
            exp_len = 12 if which.startswith('TrampolineFee') else 2
            okk = len(out.items) == exp_len
            cond = True
            if okk:
                conds = [sym.eq(out.items[0], head[0]), sym.eq(out.items[1], head[1])]
                if exp_len == 12:
                    def be(xs):
                        t = 0
                        for x in xs:
                            t = sym.add(sym.mul(t, 256), x)
                        return t
                    conds += [sym.eq(be(out.items[2:6]), base), sym.eq(be(out.items[6:10]), ppm),
                              sym.eq(be(out.items[10:12]), delta)]
                    conds += [sym.and_(sym.le(0, x), sym.le(x, 255)) for x in out.items]
                cond = sym.and_(*conds)
            good = okk and c.solver.check(m.pc, sym.not_(cond)) == 'unsat'
            rep.oblige(good)
            rep.nontrivial.add(('encode', which, tuple(res.trace)))
            mdl = c.solver.model(m.pc)
            rep.sample({'harness': 'encode', 'reason': which, 'len': len(out.items),
                        'witness': {k: mdl.get(k) for k in ('base', 'ppm', 'delta') if k in mdl}})
            if not good:
                model = c.solver.model(m.pc, sym.not_(cond)) if okk else mdl
                inp = {'reason': 'fee', 'base': model.get('base', 0), 'ppm': model.get('ppm', 0), 'delta': model.get('delta', 0)}
                if not which.startswith('TrampolineFee'):
                    inp['reason'] = 'node' if which == 'TemporaryNodeFailure' else 'trampoline'
                o = replay.run('encode', inp)
                exp = bytes(head).hex()
                if exp_len == 12:
                    exp += '%08x%08x%04x' % (inp['base'], inp['ppm'], inp['delta'])
                path = save_cex(PID, {'harness': 'encode', 'input': inp, 'expected': exp, 'native': o, 'replay_kind': 'encode'})
                if o.get('value') != exp:
                    rep.violations.append({'replay': path, 'summary': 'encode(%s) = %s, expected %s' % (inp, o.get('value'), exp), 'role': 'encode'})
                else:
                    rep.inconclusive.append('encode counterexample did not reproduce: ' + path)

def main(tier, seed, args):
    rep = Report(PID, tier, seed, 'proof')
    rep.bounds = {'fee_sufficient': 'none: all u64 x u64 x u32 x u32, overflow-checks on and off',
                  'encode': 'none: all u32 x u32 x u16',
                  'gate': 'see C12 gate part (scenario harness)'}
    rep.assumptions = ['oracle = exact predicate with every intermediate (product, base+q, amount+fee) < 2^64 (DESIGN 2.4)',
                       'core::num checked_mul/checked_add, Div by constant (fresh q,r + division lemma), to_be_bytes, Vec::extend_from_slice as intrinsics']
    rep.trusted = ['mirsym MIR interpreter', 'z3 4.8.12 (python3-vt z3-solver)', 'rustc nightly -Zunpretty=mir', 'std intrinsics: core::num, Vec']
    cs = [ctx('on'), ctx('off')]
    for c in cs:
        run_fee(rep, c, tier)
    run_encode(rep, cs[0])
    common.validate_translator(rep, cs[0], ['fee', 'encode'])
    if tier == 'thorough':
        common.cross_check_fee(rep)
    common.run_gate_parts(rep, PID, tier, seed, cs)
    finish(rep, cs, './check C12 --tier ' + tier)

def replay_cex(path):
    cex = json.load(open(path))
    o = {p: replay.run(cex['replay_kind'], cex['input'], p) for p in ('dev', 'release')}
    print(json.dumps({'expected': cex.get('expected'), 'native': o}, indent=1))
    bad = any(v.get('outcome') == 'panic' or ('value' in v and v.get('value') != cex.get('expected')) for v in o.values())
    if bad:
        print('VIOLATION property=%s replay=%s' % (PID, path))
        return 1
    return 0

