"""C07 — all HTLCs aggregated into one payment receive the same resolution; a rejection on an
incomplete set fails the whole set and starts no payment."""
from .. import sym
from ..harness import ctx, Report, finish
from ..values import Adt
from ..sched import Violation
from ..scenario import InvoiceSpec, HtlcSpec, std_htlcs
from ..monitors import SameResolution, NoPayAfterRejection, MismatchRejection, Coverage
from . import scen_common
from .scen_common import be_bytes

PID = 'C07'

def cfg_symbolic(n, store='free_absent'):
    H = sym.var('H')
    pc = []
    inv = InvoiceSpec(1, H, sym.var('inv_amount'))
    specs = std_htlcs(pc, n, H)
    cfg = dict(htlcs=specs, invoices=[inv], store_init=store, max_parts=1, pay_outcomes=('complete', 'failed'),
               pending_parts=1)
    return cfg, pc

def cfg_stored(store):
    """Stored earlier attempt: policy / invoice / declared totals concrete, HTLC amounts and expiries symbolic."""
    H = sym.var('H')
    pc = []
    inv = InvoiceSpec(1, H, 1000000)
    specs = std_htlcs(pc, 2, H)
    for s in specs:
        s.total = 1006000
        s.forward = 'amount'
        s.cltv_rel = 200
        s.amount = 503000
        s.cltv_expiry = 1000 + s.idx
    cfg = dict(htlcs=specs, invoices=[inv], store_init=store, max_parts=1, pay_outcomes=('complete',),
               pending_parts=1, policy=(1000, 5000, 100), cltv_delta=34, height=0)
    return cfg, pc

def cfg_conflict(kind):
    """Two parts of one hash with conflicting trampoline info, the first one alone not funding the payment."""
    H = sym.var('H')
    pc = []
    specs = std_htlcs(pc, 2, H)
    _b, _p, delta = sym.var('pol_base'), sym.var('pol_ppm'), sym.var('pol_delta')
    for s in specs:
        pc.append(sym.ge(s.cltv_rel, delta))          # no expiry rejection in this configuration
    if kind == 'tlv-amount':
        inv = InvoiceSpec(1, H, None)
        invoices = [inv]
        specs[0].tlv_amount = be_bytes(1000000)
        specs[1].tlv_amount = be_bytes(2000000)
        pc.append(sym.lt(specs[0].amount, 1000000))
        pc.append(sym.lt(specs[1].amount, 1000000))
    else:
        invoices = [InvoiceSpec(1, H, 1000000), InvoiceSpec(2, H, 1000000)]
        specs[1].invoice = 1
        pc.append(sym.lt(specs[0].amount, 1000000))
        pc.append(sym.lt(specs[1].amount, 1000000))
    cfg = dict(htlcs=specs, invoices=invoices, store_init='free_absent', max_parts=1, pay_outcomes=('complete',),
               deliver_in_order=False)
    return cfg, pc

class AllSettledWhenPaid:
    """Configurations whose stored state is Succeeded: every response is a Resolve."""
    def on_response(self, m, sc, k, resp):
        if not (isinstance(resp, Adt) and resp.variant == 'Resolve'):
            raise Violation('different-resolutions', {'htlc': k, 'response': resp.variant if isinstance(resp, Adt) else repr(resp),
                                                      'what': 'a replayed part of a paid invoice was not settled'}, 'htlc.response', 'paid-but-failed')

class ConflictInit:
    def on_init(self, m, sc):
        m.st.roots['conflict_pairs'] = [(0, 1)]

def main(tier, seed, args):
    rep = Report(PID, tier, seed, 'model_checking')
    c = ctx('on')
    n = 2
    rep.bounds = {'htlcs_per_hash': '2 fully symbolic; thorough: also 3 with concrete policy and invoice amount', 'rejecting_htlcs': 'any subset (symbolic fields decide)', 'stored_state': ['free', 'pending', 'succeeded'],
                  'conflicts': ['different invoice string, same hash', 'same amountless invoice, different amount TLV'],
                  'outside': 'more HTLCs; more than one hash (C14)'}
    rep.assumptions = ['node + tokio contracts', 'a single HTLC amount <= money supply', 'select! start index is a free choice (tokio thread_rng_n)']
    rep.trusted = ['mirsym', 'z3', 'node model', 'tokio/futures/std contracts']
    budget = 440 if tier == 'quick' else 3000
    configs = []
    cfg, pc = cfg_symbolic(n)
    configs.append(('symbolic[%d htlcs, free]' % n, cfg, pc, [SameResolution(), NoPayAfterRejection(('fee', 'expiry')), Coverage(['pay', 'response:Resolve', 'response:Fail(201a)', 'response:Fail(2019)'])], {}))
    if tier == 'thorough':
        # (3 fully symbolic HTLCs did not finish in 50 min: outside the bound) -- 3 HTLCs, amounts and expiries symbolic,
        # policy and invoice amount concrete
        cfg, pc = cfg_stored('free_absent')
        H = sym.var('H')
        specs = std_htlcs(pc, 3, H)
        for sp in specs:
            sp.total = 1006000
            sp.forward = 'amount'
        cfg['htlcs'] = specs
        configs.append(('symbolic amounts and expiries[3 htlcs, free, concrete policy]', cfg, pc,
                        [SameResolution(), NoPayAfterRejection(('fee', 'expiry')), Coverage(['pay', 'response:Resolve'])], {'max_states': 1500000}))
    for kind in ('invoice', 'tlv-amount'):
        cfg, pc = cfg_conflict(kind)
        configs.append(('conflict[%s]' % kind, cfg, pc, [ConflictInit(), SameResolution(), MismatchRejection(), Coverage(['response:Fail(2019)'])], {}))
    for store in (('pending',) if tier == 'quick' else ('pending', 'succeeded')):
        cfg, pc = cfg_stored(store)
        configs.append(('stored[2 htlcs, %s]' % store, cfg, pc, [SameResolution(), Coverage(['response:Resolve'])], {}))
    # a rejection raised while the stored state of an interrupted attempt is still being settled (restart path: fetch,
    # wait for the earlier parts, mark failed) must survive until the set completes: relative expiries symbolic
    cfg, pc = cfg_stored('pending')
    for s in cfg['htlcs']:
        s.cltv_rel = sym.var('rel%d' % s.idx)
        pc.append(sym.and_(sym.le(0, s.cltv_rel), sym.le(s.cltv_rel, 2000)))
    configs.append(('stored[2 htlcs, pending, rejecting]', cfg, pc, [SameResolution(), NoPayAfterRejection(('expiry',)),
                                                                      Coverage(['pay', 'response:Fail(201a)'])], {}))
    # replayed parts of a payment that is already recorded as paid: whatever their fields say now, each of them is
    # settled with the recorded preimage -- none is failed while the others are settled
    cfg, pc = cfg_stored('succeeded')
    for s in cfg['htlcs']:
        s.cltv_rel = sym.var('rel%d' % s.idx)
        pc.append(sym.and_(sym.le(0, s.cltv_rel), sym.le(s.cltv_rel, 2000)))
    configs.append(('stored[2 htlcs, succeeded, rejecting]', cfg, pc, [SameResolution(), AllSettledWhenPaid(), Coverage(['response:Resolve'])], {}))
    scen_common.run_configs(rep, PID, c, configs, budget)
    finish(rep, [c], './check C07 --tier ' + tier)

def replay_cex(path):
    return scen_common.replay_cex(PID, path)
