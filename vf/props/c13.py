"""C13 — non-trampoline HTLCs pass through untouched and without side effects."""
from .. import sym
from ..sym import T
from ..values import Adt, Seq
from ..harness import ctx, Report, finish
from ..intrinsics import is_variant
from ..sched import Violation
from ..scenario import InvoiceSpec, HtlcSpec, big_size, tlv_record, MAX_MSAT, U64, U32, I64
from ..monitors import raise_if, Coverage
from .. import lib_std
from . import scen_common
from .scen_common import be_bytes

PID = 'C13'

class PassThrough:
    """The single HTLC of the configuration is not a well-formed trampoline request."""
    def __init__(self, entries):
        self.entries = entries      # [(typ, [byte terms])] of the onion payload, in order
    def after_step(self, m, sc, label, new):
        for ev in new:
            if ev[0] in ('rpc_call', 'spawn', 'hashmap_insert', 'timer_created', 'ds_write'):
                raise Violation('side-effect', {'event': [str(x) for x in ev]}, 'handler.passthrough', ev[0])
    def on_response(self, m, sc, k, resp):
        st = m.st
        t = [t for t in st.sched.tasks if st.roots['task_of'].get(t.tid) == k][0]
        if t.polls != 1:
            raise Violation('waited-on-external-event', {'polls': t.polls}, 'handler.passthrough', 'not-immediate')
        if not (isinstance(resp, Adt) and resp.variant == 'Continue'):
            raise Violation('not-continue', {'response': resp.variant if isinstance(resp, Adt) else repr(resp)}, 'handler.passthrough', 'response')
        if st.roots['pmx'].cell.v.entries:
            raise Violation('state-retained', {'entries': len(st.roots['pmx'].cell.v.entries)}, 'handler.passthrough', 'table')
        pl = resp.fields[0]
        if is_variant(pl, 'Some'):
            got = pl.fields[0]
            exp = []
            removed = False
            for typ, val in self.entries:
                if typ == 16 and not removed:
                    removed = True
                    continue
                exp += big_size(typ) + big_size(len(val)) + list(val)
            if not isinstance(got, Seq) or len(got.items) != len(exp):
                raise Violation('payload-rewritten-wrongly', {'got_len': len(got.items) if isinstance(got, Seq) else None, 'expected_len': len(exp)},
                                'handler.passthrough', 'payload-length')
            cond = sym.and_(*[sym.eq(a, b) for a, b in zip(got.items, exp)])
            raise_if(m, sym.not_(cond), 'payload-rewritten-wrongly', {}, 'handler.passthrough', 'payload-bytes')
    def on_task_panic(self, m, sc, task, exc):
        raise Violation('task-panic', {'panic': str(exc.msg)[:200]}, 'handler.panic', 'panic')
    def on_quiescent(self, m, sc):
        if not m.st.roots['responses']:
            raise Violation('handler-never-answered', {'htlcs': [0]}, 'handler.passthrough', 'hang')

EXTRA = [(2, [0x01, 0x02]), (4, [0xaa]), (8, [1, 2, 3, 4, 5, 6, 7, 8] * 4), (18, [0x11, 0x22, 0x33]), (5482373484, [9, 9])]

def one_htlc(pc, **kw):
    a, f, t = sym.var('h0_amount'), sym.var('h0_forward'), sym.var('h0_total')
    ce, cr = sym.var('h0_cltv'), sym.var('h0_cltv_rel')
    pc.extend([sym.and_(sym.le(0, a), sym.le(a, MAX_MSAT)), sym.in_range(f, U64), sym.in_range(t, U64), sym.in_range(ce, U32), sym.in_range(cr, I64)])
    d = dict(invoice=0, hash=sym.var('H'), amount=a, forward=f, total=t, cltv_expiry=ce, cltv_rel=cr)
    d.update(kw)
    return HtlcSpec(0, **d)

class RawMeta(HtlcSpec):
    pass

def build_cases(tier):
    H = sym.var('H')
    cases = []
    inv = InvoiceSpec(1, H, sym.var('inv_amount'))
    def base(name, invoices, spec, pc, entries):
        cfg = dict(htlcs=[spec], invoices=invoices, store_init='free_absent', max_parts=1, pay_outcomes=('complete',))
        cases.append((name, cfg, pc, [PassThrough(entries), Coverage(['response:Continue'])], {}))
    # 1. plain forward (short_channel_id present) carrying perfectly valid trampoline metadata
    pc = []
    s = one_htlc(pc, scid=True, extra_payload=EXTRA[:2])
    meta = tlv_record(33001, inv.bytes())
    base('forward with valid metadata', [inv], s, pc, EXTRA[:2] + [(16, meta)])
    # 1b. length-prefixed metadata (what default_response itself parses) in the middle of the payload: rewritten
    pc = []
    inner = tlv_record(33001, inv.bytes()) + tlv_record(33003, be_bytes(5))
    pm = big_size(len(inner)) + inner
    s = one_htlc(pc, scid=True, invoice=None, extra_payload=[EXTRA[0], (16, pm), EXTRA[1], EXTRA[3], EXTRA[4]])
    cases_rewrite = ('forward with length-prefixed metadata (rewrite)', [inv], s, pc, [EXTRA[0], (16, pm), EXTRA[1], EXTRA[3], EXTRA[4]])
    base(*cases_rewrite)
    # 1c. the same with sibling records at every BigSize boundary (type and length 252, 253, 65535, 65536): the re-encoding
    #     has to switch between the 1-, 3- and 5-byte forms at exactly these values
    pc = []
    wide = [(252, [5] * 252), (253, [7] * 253), (65535, [1]), (65536, [2, 3]), (70000, [6] * 254)]
    ents = [EXTRA[0], (16, pm)] + wide
    s = one_htlc(pc, scid=True, invoice=None, extra_payload=ents)
    base('rewrite with records at BigSize boundaries', [inv], s, pc, ents)
    # 2. final hop without any metadata record
    pc = []
    s = one_htlc(pc, invoice=None, extra_payload=EXTRA)
    base('no metadata', [inv], s, pc, EXTRA)
    # 3. valid invoice but forward_msat missing
    pc = []
    s = one_htlc(pc, forward=None, extra_payload=EXTRA[:1])
    base('missing forward_msat', [inv], s, pc, EXTRA[:1] + [(16, meta)])
    # 4. invoice whose signature does not verify / whose hash differs / whose amount disagrees with the amount field
    pc = []
    s = one_htlc(pc)
    base('invalid signature', [InvoiceSpec(1, H, sym.var('inv_amount'), sig_ok=False)], s, pc, [(16, meta)])
    pc = []
    s = one_htlc(pc, hash=sym.var('H_other'))
    pc.append(sym.ne(sym.var('H_other'), H))
    base('hash differs', [inv], s, pc, [(16, meta)])
    pc = []
    s = one_htlc(pc, tlv_amount=be_bytes(123456))
    pc.append(sym.ne(sym.var('inv_amount'), 123456))
    base('amount field disagrees', [inv], s, pc, [(16, meta + tlv_record(33003, be_bytes(123456)))])
    pc = []
    s = one_htlc(pc, tlv_amount=[1] * 9)
    base('amountless invoice with a 9-byte amount field', [InvoiceSpec(1, H, None)], s, pc, [(16, meta + tlv_record(33003, [1] * 9))])
    # 4b. metadata that repeats the invoice record: the first occurrence is the one that counts, and it is unusable
    pc = []
    s = one_htlc(pc, meta_prefix=[(33001, list(b'lnbc1'))])
    base('duplicate invoice record, the first one unusable', [inv], s, pc, [(16, tlv_record(33001, list(b'lnbc1')) + meta)])
    # 5. a plain final-hop HTLC (no metadata) for a hash for which a trampoline payment is being collected: it is still
    #    none of the plugin's business -- continue at once, and it must not fund the pending set
    from ..scenario import HtlcSpec as _H
    pc = []
    h0 = _H(0, invoice=0, hash=H, amount=500000, forward='amount', total=1006000, cltv_expiry=3000, cltv_rel=1500)
    h1 = _H(1, invoice=None, hash=H, amount=506000, forward='amount', total=506000, cltv_expiry=3001, cltv_rel=1500)
    cfg = dict(htlcs=[h0, h1], invoices=[InvoiceSpec(1, H, 1000000)], store_init='free_absent', max_parts=1, pay_outcomes=('complete',),
               policy=(1000, 5000, 1008), cltv_delta=34, height=100, deliver_in_order=True, timers=False)
    cases.append(('plain htlc while a trampoline payment of the same hash is pending', cfg, pc, [PlainWhilePending(), Coverage(['response:Continue'])], {}))
    return cases

class PlainWhilePending:
    """HTLC 1 carries no trampoline metadata: `continue` on its first poll, and no outgoing payment (HTLC 0 alone does
    not fund one)."""
    def after_step(self, m, sc, label, new):
        for ev in new:
            if ev[0] == 'rpc_call' and ev[2] == 'pay':
                raise Violation('plain-htlc-held', {'what': 'an outgoing payment was started: the plain htlc was counted'}, 'handler.passthrough', 'counted')
    def on_response(self, m, sc, k, resp):
        if k != 1:
            return
        t = [t for t in m.st.sched.tasks if m.st.roots['task_of'].get(t.tid) == k][-1]
        if not (isinstance(resp, Adt) and resp.variant == 'Continue') or t.polls != 1:
            raise Violation('plain-htlc-held', {'response': resp.variant if isinstance(resp, Adt) else repr(resp), 'polls': t.polls},
                            'handler.passthrough', 'not-continue')
    def on_quiescent(self, m, sc):
        if 1 in m.st.roots['delivered'] and not any(k == 1 for (_e, k) in m.st.roots['responses']):
            raise Violation('plain-htlc-held', {'what': 'never answered'}, 'handler.passthrough', 'held')

class SymMetaScenario(scen_common.ScenarioWithPc):
    """Metadata = n arbitrary bytes (the real TLV code runs on them)."""
    def __init__(self, c, cfg, monitors, pc, meta):
        scen_common.ScenarioWithPc.__init__(self, c, cfg, monitors, pc)
        self.meta = meta
    def request_value(self, m, spec):
        req = scen_common.ScenarioWithPc.request_value(self, m, spec)
        payload = req.fields[0].fields[0]
        from ..scenario import tlv_entry
        payload.fields[0].items.insert(1, tlv_entry(16, self.meta))     # records follow the metadata record
        return req

def main(tier, seed, args):
    rep = Report(PID, tier, seed, 'model_checking')
    c = ctx('on')
    nmeta = 6 if tier == 'quick' else 9
    rep.bounds = {'classes': ['forward with valid metadata', 'no metadata', 'missing forward_msat', 'invalid signature', 'hash differs',
                              'amount field disagrees', '9-byte amount field', 'arbitrary metadata bytes'],
                  'arbitrary_metadata_len': '0..%d bytes (every byte string)' % nmeta, 'other_records': 'up to 5 concrete records incl. a 5-byte type',
                  'outside': 'longer metadata; other records symbolic'}
    rep.assumptions = ['invoice oracle: an arbitrary byte string that is not one of the scenario invoices does not parse', 'bytes/std contracts']
    rep.trusted = ['mirsym', 'z3', 'bytes + std contracts', 'invoice oracle']
    budget = 400 if tier == 'quick' else 3000
    configs = build_cases(tier)
    scen_common.run_configs(rep, PID, c, configs, budget)
    if not rep.violations:
        from .c20 import run_explorer
        H = sym.var('H')
        inv = InvoiceSpec(1, H, sym.var('inv_amount'))
        for n in range(0, nmeta + 1):
            pc = []
            bs = [sym.var('m%d' % i) for i in range(n)]
            pc += [sym.and_(sym.le(0, b), sym.le(b, 255)) for b in bs]
            s = one_htlc(pc, invoice=None, extra_payload=[EXTRA[0], EXTRA[1], EXTRA[3]])
            s.raw_meta = bs
            s.raw_meta_pos = 1
            cfg = dict(htlcs=[s], invoices=[inv], store_init='free_absent')
            sc = SymMetaScenario(c, cfg, [PassThrough([EXTRA[0], (16, bs), EXTRA[1], EXTRA[3]])], pc, bs)
            name = 'arbitrary metadata[%d bytes]' % n
            ex = run_explorer(rep, c, sc, name, max_states=200000, time_budget=budget)
            scen_common.report(rep, PID, name, ex, sc)
            if rep.violations:
                break
    finish(rep, [c], './check C13 --tier ' + tier)

def replay_cex(path):
    return scen_common.replay_cex(PID, path)
