"""C18 — TLV codec total and lossless."""
import json
from .. import sym, replay
from ..sym import T
from ..values import Adt, Ref, Seq, Slice, Cell
from ..machine import explore, Panic, Chooser
from ..harness import ctx, Report, finish, Inconclusive, save_cex, match_known
from .. import lib_std, lib_bytes
from ..lib_bytes import BytesBuf
from . import common

PID = 'C18'
U64 = sym.INT_TYPES['u64']

def sym_bytes(prefix, n):
    xs = [sym.var('%s%d' % (prefix, i)) for i in range(n)]
    dom = [sym.and_(sym.le(0, x), sym.le(x, 255)) for x in xs]
    return xs, dom

def entries_of(stream):
    """[(typ, [bytes])] of a SerializedTlvStream machine value."""
    vec = stream.fields[0]
    out = []
    for e in vec.items:
        out.append((e.fields[0], list(e.fields[1].items)))
    return out

def debug_string(entries, model):
    parts = []
    for typ, val in entries:
        t = sym.evaluate(typ, model)
        vs = [sym.evaluate(v, model) for v in val]
        parts.append('TlvEntry { typ: %d, value: [%s] }' % (t, ', '.join(str(x) for x in vs)))
    return 'SerializedTlvStream { entries: [%s] }' % ', '.join(parts)

# ---- independent reference codec (BOLT 1 BigSize / TLV), written against the spec ----
def ref_bigsize(m, v):
    """Canonical BigSize encoding of v (symbolic or concrete) as a list of byte terms; forks on width."""
    def be(v, n):
        if not isinstance(v, T):
            return list(v.to_bytes(n, 'big'))
        bs = [m.fresh('rb') for _ in range(n)]
        tot = 0
        for b in bs:
            m.pc.append(sym.and_(sym.le(0, b), sym.le(b, 255)))
            tot = sym.add(sym.mul(tot, 256), b)
        m.pc.append(sym.eq(tot, v))
        return bs
    if m.branch(sym.lt(v, 0xfd), 'ref.w1'):
        return [v]
    if m.branch(sym.le(v, 0xffff), 'ref.w3'):
        return [0xfd] + be(v, 2)
    if m.branch(sym.le(v, 0xffffffff), 'ref.w5'):
        return [0xfe] + be(v, 4)
    return [0xff] + be(v, 8)

def ref_encode(m, records):
    out = []
    for typ, val in records:
        out += ref_bigsize(m, typ)
        out += ref_bigsize(m, len(val))
        out += list(val)
    return out

# ----------------------------------------------------------------------------
def totality(rep, c, fn, nmax, cases_for_replay):
    """from_bytes / try_from on every byte string of each length 0..nmax: no panic outcome."""
    key = 'SerializedTlvStream::from_bytes' if fn == 'from_bytes' else '<SerializedTlvStream as TryFrom>::try_from'
    body = c.body(key)
    stats = {'paths': 0, 'ok': 0, 'err': 0, 'panic': 0}
    first_panic = None
    # every byte string of length 0..nmax, then one longer *shaped* family: one-byte type, then the widest length form
    # (0xff + 8 bytes), the only way to declare a length above 2^32 / isize::MAX
    for n in list(range(0, nmax + 1)) + (['wide'] if nmax < 10 else []):
        if n == 'wide':
            n = 10
            xs, dom = sym_bytes('b', n)
            dom = dom + [sym.lt(xs[0], 0xfd), sym.eq(xs[1], 0xff)]
        else:
            xs, dom = sym_bytes('b', n)
        def mk(ch):
            m = c.machine(ch)
            m.pc.extend(dom)
            m.loop_bound = 4 * nmax + 8
            return m
        def run(m):
            return m.call_body(body, [Seq(list(xs), 'vec')])
        for res in explore(mk, run, order_seed=rep.seed):
            m = res.machine
            rep.paths += 1
            stats['paths'] += 1
            rep.note_machine(m)
            rep.outcomes[res.outcome] = rep.outcomes.get(res.outcome, 0) + 1
            if res.outcome == 'infeasible':
                continue
            if res.outcome in ('unsupported', 'bound'):
                rep.inconclusive.append('%s[%d bytes]: %s' % (fn, n, res.error))
                continue
            model = c.solver.model(m.pc)
            data = bytes(model.get('b%d' % i, 0) for i in range(n))
            rep.nontrivial.add((fn, n, res.outcome, tuple(res.trace)))
            if res.outcome == 'panic':
                stats['panic'] += 1
                rep.oblige(False)
                if first_panic is None:
                    first_panic = (data, str(res.error.msg))
                cases_for_replay.append((fn, data, 'panic', None))
                continue
            rep.oblige(True)
            v = res.value
            if v.variant == 'Ok':
                stats['ok'] += 1
                cases_for_replay.append((fn, data, 'ok', debug_string(entries_of(v.fields[0]), model)))
                if len(rep.samples) < 6 and n >= 2:
                    rep.sample({'harness': fn + ' totality', 'bytes': data.hex(), 'outcome': 'ok',
                                'decoded': debug_string(entries_of(v.fields[0]), model)})
            else:
                stats['err'] += 1
                cases_for_replay.append((fn, data, 'err', None))
    rep.parts[fn + '_totality'] = dict(stats, max_len=nmax)
    return first_panic

def compact_roundtrip(rep, c):
    """get_compact_size(put_compact_size(v)) == v for all u64, consuming exactly what was written,
    and the written form is the canonical BigSize (against the reference)."""
    put = c.body('ProtoBufMut::put_compact_size')
    get = c.body('ProtoBuf::get_compact_size')
    v = sym.var('v')
    def mk(ch):
        m = c.machine(ch)
        m.pc.append(sym.in_range(v, U64))
        return m
    def run(m):
        bm = BytesBuf([], 'BytesMut')
        m.call_body(put, [Ref(Cell(bm), 'v'), v])
        written = list(bm.seq.items)
        slot = Cell(Slice(Seq(written + [sym.var('trail')], 'array')))
        got = m.call_body(get, [Ref(slot, 'v')])
        if isinstance(got, Adt) and got.variant in ('Ok', 'Err'):
            if got.variant == 'Err':
                raise Panic('get_compact_size returned Err on its own encoding')
            got = got.fields[0]
        return got, written, len(slot.v)
    for res in explore(mk, run, order_seed=rep.seed):
        m = res.machine
        rep.paths += 1
        rep.note_machine(m)
        rep.outcomes[res.outcome] = rep.outcomes.get(res.outcome, 0) + 1
        if res.outcome == 'infeasible':
            continue
        if res.outcome != 'ok':
            if res.outcome == 'panic':
                rep.oblige(False)
                mdl = c.solver.model(m.pc)
                path = save_cex(PID, {'harness': 'compact_roundtrip', 'value': str(mdl.get('v')), 'panic': str(res.error.msg),
                                      'replay_kind': 'put_compact_size', 'input': {'value': str(mdl.get('v'))}})
                rep.violations.append({'replay': path, 'summary': 'compact size round trip panics for v=%s' % mdl.get('v'), 'role': 'compact_roundtrip'})
            else:
                rep.inconclusive.append('compact_roundtrip: %s' % res.error)
            continue
        got, written, left = res.value
        refm_pc_len = len(m.pc)
        refenc = ref_bigsize(m, v)       # extends m.pc along the (unique feasible) width class
        same_len = len(refenc) == len(written)
        cond = sym.and_(sym.eq(got, v), left == 1, same_len,
                        *[sym.eq(a, b) for a, b in zip(refenc, written)])
        good = c.solver.check(m.pc, sym.not_(cond)) == 'unsat'
        rep.oblige(good)
        rep.nontrivial.add(('compact', tuple(res.trace)))
        mdl = c.solver.model(m.pc)
        rep.sample({'harness': 'compact size round trip', 'width': len(written), 'witness_v': str(mdl.get('v'))})
        if not good:
            mdl = c.solver.model(m.pc, sym.not_(cond))
            inp = {'value': str(mdl.get('v'))}
            o = replay.run('put_compact_size', inp)
            exp = bytes(ref_bigsize_concrete(int(inp['value']))).hex()
            path = save_cex(PID, {'harness': 'compact_roundtrip', 'input': inp, 'native': o, 'expected': exp, 'replay_kind': 'put_compact_size'})
            bad = o.get('value') != exp
            if not bad:
                o2 = replay.run('get_compact_size', {'bytes': exp + '00'})
                bad = o2.get('value') != inp['value'] or o2.get('remaining') != 1
            if bad:
                rep.violations.append({'replay': path, 'summary': 'compact size round trip wrong for v=%s (native %s)' % (inp['value'], o), 'role': 'compact_roundtrip'})
            else:
                rep.inconclusive.append('compact round-trip counterexample did not reproduce: ' + path)

def ref_bigsize_concrete(v):
    if v < 0xfd:
        return [v]
    if v <= 0xffff:
        return [0xfd] + list(v.to_bytes(2, 'big'))
    if v <= 0xffffffff:
        return [0xfe] + list(v.to_bytes(4, 'big'))
    return [0xff] + list(v.to_bytes(8, 'big'))

def record_roundtrip(rep, c, max_records, max_vlen, cases_for_replay):
    """For every record list within the bounds: to_bytes(from(R)) == ref_enc(R) and
    from_bytes(ref_enc(R)) == Ok(R)  (hence encode(decode(x)) == x for every valid x = ref_enc(R))."""
    to_bytes = c.body('<SerializedTlvStream as ToBytes>::to_bytes')
    from_bytes = c.body('SerializedTlvStream::from_bytes')
    import itertools
    n_shapes = 0
    for k in range(0, max_records + 1):
        for lens in itertools.product(range(0, max_vlen + 1), repeat=k):
            n_shapes += 1
            typs = [sym.var('t%d' % i) for i in range(k)]
            vals = [[sym.var('v%d_%d' % (i, j)) for j in range(lens[i])] for i in range(k)]
            dom = [sym.in_range(t, U64) for t in typs]
            for vs in vals:
                dom += [sym.and_(sym.le(0, x), sym.le(x, 255)) for x in vs]
            def mk(ch):
                m = c.machine(ch)
                m.pc.extend(dom)
                m.loop_bound = 64
                return m
            def run(m):
                ents = [Adt('tlv::TlvEntry', None, {0: typs[i], 1: Seq(list(vals[i]), 'vec')}, ['typ', 'value']) for i in range(k)]
                stream = Adt('tlv::SerializedTlvStream', None, {0: Seq(ents, 'vec')}, ['entries'])
                enc = m.call_body(to_bytes, [stream])
                ref = ref_encode(m, [(typs[i], vals[i]) for i in range(k)])
                dec = m.call_body(from_bytes, [Seq(list(ref), 'vec')])
                return enc, ref, dec
            for res in explore(mk, run, order_seed=rep.seed):
                m = res.machine
                rep.paths += 1
                rep.note_machine(m)
                rep.outcomes[res.outcome] = rep.outcomes.get(res.outcome, 0) + 1
                if res.outcome == 'infeasible':
                    continue
                shape = {'records': k, 'value_lens': list(lens)}
                if res.outcome in ('unsupported', 'bound'):
                    rep.inconclusive.append('record_roundtrip %s: %s' % (shape, res.error))
                    continue
                mdl = c.solver.model(m.pc)
                recs = [{'typ': str(mdl.get('t%d' % i, 0)), 'value': bytes(mdl.get('v%d_%d' % (i, j), 0) for j in range(lens[i])).hex()} for i in range(k)]
                if res.outcome == 'panic':
                    rep.oblige(False)
                    report_roundtrip(rep, c, recs, 'panic: ' + str(res.error.msg))
                    continue
                enc, ref, dec = res.value
                conds = [len(enc.items) == len(ref)] + [sym.eq(a, b) for a, b in zip(enc.items, ref)]
                if dec.variant != 'Ok':
                    conds.append(False)
                else:
                    got = entries_of(dec.fields[0])
                    conds.append(len(got) == k)
                    for (gt, gv), t, vs in zip(got, typs, vals):
                        conds.append(sym.eq(gt, t))
                        conds.append(len(gv) == len(vs))
                        conds += [sym.eq(a, b) for a, b in zip(gv, vs)]
                cond = sym.and_(*conds)
                good = c.solver.check(m.pc, sym.not_(cond)) == 'unsat'
                rep.oblige(good)
                rep.nontrivial.add(('roundtrip', k, lens, tuple(res.trace)))
                if k >= 1:
                    rep.sample({'harness': 'record round trip', 'records': recs, 'encoded_len': len(ref)}, cap=12)
                cases_for_replay.append(('roundtrip', recs, None, None))
                if not good:
                    mdl = c.solver.model(m.pc, sym.not_(cond))
                    recs = [{'typ': str(mdl.get('t%d' % i, 0)), 'value': bytes(mdl.get('v%d_%d' % (i, j), 0) for j in range(lens[i])).hex()} for i in range(k)]
                    report_roundtrip(rep, c, recs, 'mismatch')
    rep.parts['record_roundtrip'] = {'shapes': n_shapes, 'max_records': max_records, 'max_value_len': max_vlen}

def native_roundtrip(recs, profile='dev'):
    """(ok?, detail) of the two round-trip directions natively against the reference encoding."""
    exp = []
    for r in recs:
        v = bytes.fromhex(r['value'])
        exp += ref_bigsize_concrete(int(r['typ'])) + ref_bigsize_concrete(len(v)) + list(v)
    exp = bytes(exp).hex()
    o1 = replay.run('to_bytes', {'entries': recs}, profile)
    o2 = replay.run('from_bytes', {'bytes': exp}, profile)
    dbg = 'SerializedTlvStream { entries: [%s] }' % ', '.join(
        'TlvEntry { typ: %s, value: [%s] }' % (r['typ'], ', '.join(str(x) for x in bytes.fromhex(r['value']))) for r in recs)
    good = o1.get('value') == exp and o2.get('outcome') == 'ok' and o2.get('debug') == dbg and o2.get('reencoded') == exp
    return good, {'expected_bytes': exp, 'to_bytes': o1, 'from_bytes': o2}

def report_roundtrip(rep, c, recs, text):
    good, detail = native_roundtrip(recs)
    path = save_cex(PID, {'harness': 'record_roundtrip', 'records': recs, 'text': text, 'native': detail, 'replay_kind': 'roundtrip'})
    if good:
        rep.inconclusive.append('round-trip counterexample did not reproduce natively: ' + path)
    elif not any(v.get('role') == 'record_roundtrip' for v in rep.violations):
        rep.violations.append({'replay': path, 'summary': 'TLV round trip broken for records %s: %s' % (recs, text), 'role': 'record_roundtrip'})

def tu64(rep, c):
    """get_tu64: big-endian value for lengths 0..8 (buffer fully consumed), Err for 9..12."""
    body = c.body('ProtoBuf::get_tu64')
    for n in range(0, 13):
        xs, dom = sym_bytes('b', n)
        def mk(ch):
            m = c.machine(ch)
            m.pc.extend(dom)
            return m
        def run(m):
            buf = BytesBuf(list(xs))
            r = m.call_body(body, [Ref(Cell(buf), 'v')])
            return r, buf.remaining()
        for res in explore(mk, run, order_seed=rep.seed):
            m = res.machine
            rep.paths += 1
            rep.note_machine(m)
            rep.outcomes[res.outcome] = rep.outcomes.get(res.outcome, 0) + 1
            if res.outcome == 'infeasible':
                continue
            if res.outcome in ('unsupported', 'bound'):
                rep.inconclusive.append('get_tu64[%d]: %s' % (n, res.error))
                continue
            mdl = c.solver.model(m.pc)
            data = bytes(mdl.get('b%d' % i, 0) for i in range(n))
            good = False
            cond = None
            if res.outcome == 'ok':
                r, left = res.value
                if n <= 8:
                    be = 0
                    for x in xs:
                        be = sym.add(sym.mul(be, 256), x)
                    if r.variant == 'Ok':
                        cond = sym.and_(sym.eq(r.fields[0], be), left == 0)
                        good = c.solver.check(m.pc, sym.not_(cond)) == 'unsat'
                else:
                    good = r.variant == 'Err'
            rep.oblige(good)
            rep.nontrivial.add(('tu64', n, res.outcome, tuple(res.trace)))
            if n in (0, 3, 8, 9):
                rep.sample({'harness': 'get_tu64', 'len': n, 'bytes': data.hex(), 'outcome': res.outcome if res.outcome != 'ok' else res.value[0].variant}, cap=16)
            if not good:
                if cond is not None:
                    mdl = c.solver.model(m.pc, sym.not_(cond)) or mdl
                    data = bytes(mdl.get('b%d' % i, 0) for i in range(n))
                o = replay.run('get_tu64', {'bytes': data.hex()})
                exp_ok = n <= 8
                bad = (o.get('outcome') == 'panic') or (exp_ok and (o.get('outcome') != 'ok' or o.get('value') != str(int.from_bytes(data, 'big')) or o.get('remaining') != 0)) \
                    or (not exp_ok and o.get('outcome') != 'err')
                path = save_cex(PID, {'harness': 'get_tu64', 'input': {'bytes': data.hex()}, 'native': o, 'replay_kind': 'get_tu64'})
                if bad:
                    if not any(v.get('role') == 'get_tu64' for v in rep.violations):
                        rep.violations.append({'replay': path, 'summary': 'get_tu64(%s) -> %s' % (data.hex(), o), 'role': 'get_tu64'})
                else:
                    rep.inconclusive.append('get_tu64 counterexample did not reproduce: ' + path)

def validate_paths(rep, cases):
    """Every explored path's witness is executed natively; outcome class and decoded records must match."""
    batch = []
    for fn, data, outcome, dbg in cases:
        if fn == 'roundtrip':
            continue
        batch.append((fn, {'bytes': data.hex()}))
    obs = replay.batch(batch, 'dev') if batch else []
    k = 0
    bad = 0
    for fn, data, outcome, dbg in cases:
        if fn == 'roundtrip':
            continue
        o = obs[k]
        k += 1
        same = o.get('outcome') == outcome and (outcome != 'ok' or o.get('debug') == dbg)
        if same:
            rep.validated += 1
        else:
            bad += 1
            if bad <= 5:
                rep.inconclusive.append('path witness mismatch %s(%s): mirsym=%s %s native=%s' % (fn, data.hex(), outcome, dbg, o))
    # round-trip witnesses
    rt = [c for c in cases if c[0] == 'roundtrip']
    step = max(1, len(rt) // 60)
    for c in rt[::step]:
        good, detail = native_roundtrip(c[1])
        if good:
            rep.validated += 1
        else:
            rep.inconclusive.append('round-trip witness fails natively although the symbolic obligation held: %s %s' % (c[1], detail))
    rep.parts['path_witness_replay'] = {'replayed': rep.validated, 'mismatches': bad}

def report_totality_panic(rep, fn, first):
    data, msg = first
    obs = {p: replay.run(fn, {'bytes': data.hex()}, p) for p in ('dev', 'release')}
    path = save_cex(PID, {'harness': fn + ' totality', 'input': {'bytes': data.hex()}, 'mirsym': 'panic: ' + msg,
                          'native': obs, 'replay_kind': fn})
    if not any(o.get('outcome') == 'panic' for o in obs.values()):
        rep.inconclusive.append('totality counterexample did not reproduce natively: ' + path)
        return
    role, cause = fn + '.decode', 'truncated-compact-size'
    k = match_known(PID, role, cause)
    if k is not None:
        rep.known.append('%s/%s %s' % (role, cause, k.get('text', '')))
    else:
        rep.violations.append({'replay': path, 'role': role,
                               'summary': '%s(%s) panics: %s' % (fn, data.hex(), obs['dev'].get('message'))})

def main(tier, seed, args):
    rep = Report(PID, tier, seed, 'model_checking')
    nmax = 8 if tier == 'quick' else 11
    nrec, vlen = (2, 2) if tier == 'quick' else (3, 3)
    rep.bounds = {'totality_bytes': nmax, 'roundtrip_records': nrec, 'roundtrip_value_len': vlen,
                  'compact_size': 'none (all u64)', 'tu64_len': '0..12',
                  'outside': 'byte strings longer than %d; record lists longer than %d or values longer than %d bytes' % (nmax, nrec, vlen)}
    rep.assumptions = ['bytes 1.6 Buf/BufMut contracts (lib_bytes.py), including panics on under-run',
                       'reference codec: BOLT 1 BigSize, written in the checker',
                       'valid stream = reference encoding of some record list (canonical BigSize); type ordering is not needed for the round trip']
    rep.trusted = ['mirsym', 'z3', 'rustc MIR dump', 'bytes intrinsics (cross-checked by native path-witness replay)']
    c = ctx('on')
    cases = []
    part = getattr(args, 'part', None)
    for fn in ('from_bytes', 'try_from'):
        if part and part != fn:
            continue
        first = totality(rep, c, fn, nmax, cases)
        if first is not None:
            report_totality_panic(rep, fn, first)
    if not part or part == 'compact':
        compact_roundtrip(rep, c)
    if not part or part == 'roundtrip':
        record_roundtrip(rep, c, nrec, vlen, cases)
    if not part or part == 'tu64':
        tu64(rep, c)
    validate_paths(rep, cases)
    rep.states = len(rep.nontrivial)
    rep.transitions = rep.paths
    finish(rep, [c], './check C18 --tier ' + tier)

def replay_cex(path):
    cex = json.load(open(path))
    kind = cex.get('replay_kind')
    if kind == 'roundtrip':
        good, detail = native_roundtrip(cex['records'])
        print(json.dumps(detail, indent=1))
        if not good:
            print('VIOLATION property=%s replay=%s' % (PID, path))
            return 1
        return 0
    o = {p: replay.run(kind, cex['input'], p) for p in ('dev', 'release')}
    print(json.dumps(o, indent=1))
    if any(v.get('outcome') == 'panic' for v in o.values()):
        print('VIOLATION property=%s replay=%s' % (PID, path))
        return 1
    return 0
