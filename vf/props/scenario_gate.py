"""C12 (c),(d): every fee-or-expiry failure carries the configured policy; the first HTLC of a payment with
no earlier attempt is answered with it when its declared total fails the fee test or its relative expiry is too low."""
from .. import sym
from ..scenario import InvoiceSpec, std_htlcs
from ..monitors import PolicyFailures, Coverage
from . import scen_common

def run(rep, pid, tier, seed, cs):
    c = cs[0]
    configs = []
    for n in ((1,) if tier == 'quick' else (1, 2)):
        for amountless in (False,):
            H = sym.var('H')
            pc = []
            inv = InvoiceSpec(1, H, sym.var('inv_amount'))
            specs = std_htlcs(pc, n, H)
            if n == 1:
                specs[0].total = None if False else specs[0].total
            cfg = dict(htlcs=specs, invoices=[inv], store_init='free', max_parts=1, pay_outcomes=('complete', 'failed'))
            configs.append(('gate[%d htlcs]' % n, cfg, pc, [PolicyFailures(True), Coverage(['response:Fail(201a)', 'pay'])], {}))
    # declared total absent: the forward amount is the declared total
    H = sym.var('H')
    pc = []
    inv = InvoiceSpec(1, H, sym.var('inv_amount'))
    specs = std_htlcs(pc, 1, H)
    specs[0].total = None
    cfg = dict(htlcs=specs, invoices=[inv], store_init='free_absent', max_parts=1, pay_outcomes=('complete',))
    configs.append(('gate[1 htlc, no total_msat]', cfg, pc, [PolicyFailures(True), Coverage(['response:Fail(201a)', 'pay'])], {}))
    scen_common.run_configs(rep, pid, c, configs, 300 if tier == 'quick' else 1800)
