"""C04 — the outgoing payment always expires safely before the incoming HTLCs funding it."""
from .. import sym
from ..harness import ctx, Report, finish
from ..machine import explore, Panic
from ..values import Adt, Ref, Cell
from ..scenario import InvoiceSpec, std_htlcs, U32, U16
from ..monitors import ExpiryBudget, NoPayAfterRejection, Coverage
from . import scen_common

PID = 'C04'

def cfg_symbolic(n, blocks):
    H = sym.var('H')
    pc = []
    inv = InvoiceSpec(1, H, sym.var('inv_amount'))
    specs = std_htlcs(pc, n, H)
    cfg = dict(htlcs=specs, invoices=[inv], store_init='free_absent', max_parts=1, pay_outcomes=('complete',), blocks=blocks,
               stale_blocks=True, real_height_update=True)
    return cfg, pc

class StopAfterPay:
    def is_terminal(self, m, sc):
        return any(c.method == 'pay' and c.state != 'new' for c in m.st.env.calls)

def main(tier, seed, args):
    rep = Report(PID, tier, seed, 'model_checking')
    c = ctx('on')
    rep.bounds = {'htlcs_x_block_arrivals': '1x1, 2x1' if tier == 'quick' else '1x2, 1x3, 2x1 (new or stale heights); 2x2 (new tips only)',
                  'values': 'expiries, heights, deltas fully symbolic (u32/u16)', 'outside': 'more HTLCs / more block arrivals'}
    rep.assumptions = ['heights reach the plugin through the crate\'s own update_height (run from MIR as a task); a height told may be new or stale; the budget is measured against the highest height whose processing has finished', 'node + tokio contracts',
                       '"held when the payment was initiated" = listeners registered when the lifecycle reads the table after payment_ready']
    rep.trusted = ['mirsym', 'z3', 'node model', 'tokio contracts']
    budget = 440 if tier == 'quick' else 3000
    configs = []
    mons = lambda: [ExpiryBudget(), NoPayAfterRejection(('expiry',)), StopAfterPay(), Coverage(['pay'])]
    # (3 HTLCs x 1 height did not finish in 50 min, 730 000 paths; 2 x 2 with stale heights needs 43-50 min: outside the bound)
    shapes = [(1, 1, True), (2, 1, True)] if tier == 'quick' else [(1, 2, True), (1, 3, True), (2, 1, True), (2, 2, False)]
    import os
    if os.environ.get('VERIF_C04_SHAPES'):      # development aid: time one shape
        shapes = [tuple(int(x) for x in sh.split('x')) + (True,) for sh in os.environ['VERIF_C04_SHAPES'].split(',')]
    for n, b, stale in shapes:
        cfg, pc = cfg_symbolic(n, b)
        cfg['stale_blocks'] = stale
        configs.append(('expiry[%d htlc%s,%d height%s told%s]' % (n, '' if n == 1 else 's', b, '' if b == 1 else 's', '' if stale else ', new tips only'),
                        cfg, pc, mons(), {} if tier == 'quick' else {'max_states': 1500000}))
    # restart: replayed HTLCs of an interrupted, dead attempt, relative expiries symbolic -- one that is now too low must
    # still keep the resumed set from being paid
    from .c07 import cfg_stored
    cfg, pc = cfg_stored('pending')
    for sp in cfg['htlcs']:
        sp.cltv_rel = sym.var('rel%d' % sp.idx)
        pc.append(sym.and_(sym.le(0, sp.cltv_rel), sym.le(sp.cltv_rel, 2000)))
    configs.append(('expiry[2 replayed htlcs, stored pending]', cfg, pc, [ExpiryBudget(), NoPayAfterRejection(('expiry',)), StopAfterPay(), Coverage(['pay'])], {}))
    scen_common.run_configs(rep, PID, c, configs, budget)
    finish(rep, [c], './check C04 --tier ' + tier)

def height_use_stage(rep, pid, c, budget=400):
    """The height that bounds a pay request is the highest one processed when the payment is initiated (1 HTLC, 1 height
    told at any point of the lifecycle, new or stale).  Shared with C19 (safety margin applied) and C20 (height used)."""
    cfg, pc = cfg_symbolic(1, 1)
    scen_common.run_configs(rep, pid, c, [('height used for the pay request[1 htlc, 1 height told]', cfg, pc,
                                           [ExpiryBudget(), StopAfterPay(), Coverage(['pay'])], {})], budget)

def replay_cex(path):
    return scen_common.replay_cex(PID, path)
