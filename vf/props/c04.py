"""C04 — the outgoing payment always expires safely before the incoming HTLCs funding it."""
from .. import sym
from ..harness import ctx, Report, finish
from ..machine import explore, Panic
from ..values import Adt, Ref, Cell
from ..scenario import InvoiceSpec, std_htlcs, U32, U16
from ..monitors import ExpiryBudget, NoPayAfterRejection, Coverage
from . import scen_common

PID = 'C04'

def cfg_symbolic(n, blocks):
    H = sym.var('H')
    pc = []
    inv = InvoiceSpec(1, H, sym.var('inv_amount'))
    specs = std_htlcs(pc, n, H)
    cfg = dict(htlcs=specs, invoices=[inv], store_init='free_absent', max_parts=1, pay_outcomes=('complete',), blocks=blocks)
    return cfg, pc

class StopAfterPay:
    def is_terminal(self, m, sc):
        return any(c.method == 'pay' and c.state != 'new' for c in m.st.env.calls)

def main(tier, seed, args):
    rep = Report(PID, tier, seed, 'model_checking')
    c = ctx('on')
    rep.bounds = {'htlcs': 2 if tier == 'quick' else 3, 'block_arrivals': 1 if tier == 'quick' else 2,
                  'values': 'expiries, heights, deltas fully symbolic (u32/u16)', 'outside': 'more HTLCs / more block arrivals'}
    rep.assumptions = ['block_added handling is atomic here (update_height itself is C20)', 'node + tokio contracts',
                       '"held when the payment was initiated" = listeners registered when the lifecycle reads the table after payment_ready']
    rep.trusted = ['mirsym', 'z3', 'node model', 'tokio contracts']
    budget = 440 if tier == 'quick' else 3000
    configs = []
    n, b = (2, 1) if tier == 'quick' else (3, 2)
    cfg, pc = cfg_symbolic(n, b)
    configs.append(('expiry[%d htlcs,%d blocks]' % (n, b), cfg, pc, [ExpiryBudget(), NoPayAfterRejection(('expiry',)), StopAfterPay(), Coverage(['pay'])], {}))
    if tier == 'quick':
        cfg, pc = cfg_symbolic(1, 1)
        configs.insert(0, ('expiry[1 htlc,1 block]', cfg, pc, [ExpiryBudget(), NoPayAfterRejection(('expiry',)), StopAfterPay(), Coverage(['pay'])], {}))
    scen_common.run_configs(rep, PID, c, configs, budget)
    finish(rep, [c], './check C04 --tier ' + tier)

def replay_cex(path):
    return scen_common.replay_cex(PID, path)
