"""C01 — an incoming HTLC is settled only with a preimage of its own payment hash."""
from .. import sym
from ..harness import ctx, Report, finish
from ..scenario import InvoiceSpec, std_htlcs
from ..monitors import SettleOwnHash, Coverage
from . import scen_common

PID = 'C01'

def cfg_hashes(n, store, crash=0):
    H = sym.var('H')
    pc = []
    inv = InvoiceSpec(1, H, sym.var('inv_amount'))
    specs = std_htlcs(pc, n, H)
    for s in specs:
        s.hash = sym.var('hash%d' % s.idx)          # the HTLC's own payment hash: equal to or different from the invoice's
    cfg = dict(htlcs=specs, invoices=[inv], store_init=store, max_parts=1, pay_outcomes=('complete', 'failed'),
               pending_parts=1, crash=crash)
    return cfg, pc

def main(tier, seed, args):
    rep = Report(PID, tier, seed, 'model_checking')
    c = ctx('on')
    rep.bounds = {'htlcs': 2, 'hashes': 'htlc.payment_hash symbolic and independent of the invoice hash', 'parts': 1,
                  'stored_history': ['absent', 'pending (live/dead part)', 'succeeded'], 'crash': '0 (quick) / 1 with 1 HTLC (thorough); thorough also 2 HTLCs on every stored history',
                  'outside': 'more HTLCs/parts; SHA-256 itself (preimages are terms pre(h), the node attaches them to hashes)'}
    rep.assumptions = ['SHA-256(preimage)=hash is the node contract: pre(h) is the unique preimage term of hash h',
                       'stored Succeeded records found at start satisfy the representation invariant (preimage of the key hash); the write side is checked',
                       'hex encoding of the hash in datastore keys is injective']
    rep.trusted = ['mirsym', 'z3', 'node model', 'tokio contracts', 'invoice oracle (lightning-invoice parse/hash as uninterpreted attributes)']
    budget = 440 if tier == 'quick' else 3000
    configs = []
    cfg, pc = cfg_hashes(1, 'free_absent')
    cfg['pay_outcomes'] = ('complete', 'pending', 'failed', 'failed_warning', 'error:210')
    configs.append(('hashes[1 htlc, free]', cfg, pc, [SettleOwnHash(), Coverage(['pay', 'response:Resolve', 'response:Continue'])], {}))
    cfg, pc = cfg_hashes(2, 'free_absent')
    configs.append(('hashes[2 htlcs, free]', cfg, pc, [SettleOwnHash(), Coverage(['pay', 'response:Resolve'])], {}))
    for store in ('pending', 'succeeded'):
        cfg, pc = cfg_hashes(1, store)
        configs.append(('hashes[1 htlc, %s]' % store, cfg, pc, [SettleOwnHash(), Coverage(['response:Resolve'])], {}))
    if tier == 'thorough':
        # (2 HTLCs with a crash anywhere exceeded 300 000 states in 43 min without finishing: outside the bound)
        cfg, pc = cfg_hashes(1, 'free_absent', crash=1)
        configs.append(('hashes[1 htlc, crash]', cfg, pc, [SettleOwnHash(), Coverage(['crash'])], {'max_states': 1000000}))
        for store in ('pending', 'succeeded'):
            cfg, pc = cfg_hashes(2, store)
            configs.append(('hashes[2 htlcs, %s]' % store, cfg, pc, [SettleOwnHash(), Coverage(['response:Resolve'])], {'max_states': 1000000}))
    scen_common.run_configs(rep, PID, c, configs, budget)
    finish(rep, [c], './check C01 --tier ' + tier)

def replay_cex(path):
    return scen_common.replay_cex(PID, path)
