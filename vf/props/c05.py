"""C05 — at most one outgoing attempt live per hash; a paid invoice is never paid again."""
from ..harness import ctx, Report, finish
from ..monitors import OneAttempt, Coverage
from . import scen_common, scen_payflow

PID = 'C05'

class StopAfterSecondPay:
    """Nothing of C05 is left to decide once the second pay request of a two-set configuration was examined."""
    n = 2
    def is_terminal(self, m, sc):
        return len([c for c in m.st.env.calls if c.method == 'pay' and c.state != 'new']) >= self.n

class StopAfterThirdPay(StopAfterSecondPay):
    n = 3

def main(tier, seed, args):
    rep = Report(PID, tier, seed, 'model_checking')
    c = ctx('on')
    rep.bounds = {'htlc_sets': '1 set; 2 consecutive sets for one invoice', 'parts': '1 per pay command + 1 from an earlier attempt (restart configuration: 2 earlier parts, codes 203/204)',
                  'stored_history': ['absent', 'Pending with a pending/complete/failed part', 'Succeeded'], 'crash': '1, anywhere in a single-set run; 1 while the second set\'s attempt is live',
                  'pay_outcomes': 'complete, pending, failed, failed with a non-empty / empty partial-completion warning, RPC error 210, RPC error without a node error code', 'outside': 'more sets / parts / crashes; RPC faults (thorough: 1)'}
    rep.assumptions = ['node model: a pay command that returned creates no further parts; part states monotone']
    rep.trusted = ['mirsym', 'z3', 'node model', 'tokio contracts']
    budget = 400 if tier == 'quick' else 3000
    configs = []
    fl = 1 if tier == 'thorough' else 0
    for name, cfg, pc, kw in scen_payflow.standard_configs(tier, two_sets=('paid', 'error:210', 'crash'), crash=True, faults=fl, fault_methods=('listsendpays', 'waitsendpay', 'listdatastore')):
        extra = ([StopAfterThirdPay()] if 'crash' in name else [StopAfterSecondPay()]) if 'first pay ends' in name else []
        configs.append((name, cfg, pc, extra + [OneAttempt(), Coverage(['response:Resolve'] if 'succeeded' in name else ([] if 'stored=pending' in name else ['pay']))], kw))
    scen_common.run_configs(rep, PID, c, configs, budget)
    finish(rep, [c], './check C05 --tier ' + tier)

def replay_cex(path):
    return scen_common.replay_cex(PID, path)
