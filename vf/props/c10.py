"""C10 — trampoline parameters come only from a signed invoice with unambiguous amount."""
from .. import sym
from ..sym import T
from ..values import Adt, Seq
from ..harness import ctx, Report, finish
from ..sched import Violation
from ..scenario import InvoiceSpec, HtlcSpec, MAX_MSAT, U64, U32, I64, resp_is, fail_code
from ..monitors import raise_if, Coverage, specs_of
from ..env_node import pubkey_value
from .. import lib_std
from . import scen_common

PID = 'C10'

class Classification:
    seen = set()
    def __init__(self, tlv_len, inv_amount):
        self.tlv_len = tlv_len
        self.inv_amount = inv_amount
    def is_terminal(self, m, sc):
        return any(t.polls >= 1 for t in m.st.sched.tasks if m.st.roots['task_of'].get(t.tid) == 0)
    def after_step(self, m, sc, label, new):
        st = m.st
        if not label.startswith('poll htlc0'):
            return
        spec = specs_of(m)[0]
        inv = sc.cfg['invoices'][0]
        hm = st.roots['pmx'].cell.v
        classified = bool(hm.entries) or any(e[0] == 'spawn' for e in new)
        local = sym.var('local_node_id')
        self_last = sym.or_(*[sym.eq(h[-1], local) for h in inv.hints if h])
        allow = sym.var('allow_self', 'B')
        resp = st.roots['responses'].get((0, 0))
        if classified:
            Classification.seen.add('trampoline')
            raise_if(m, sym.not_(inv.sig_ok), 'trampoline-without-valid-signature', {}, 'classify', 'signature')
            raise_if(m, sym.ne(spec.hash, inv.hash), 'trampoline-with-foreign-hash', {}, 'classify', 'hash')
            raise_if(m, sym.and_(self_last, sym.not_(allow)), 'self-route-hint-accepted', {}, 'classify', 'self-hint')
            ps = hm.entries[0][1].v if hm.entries else None
            if ps is not None:
                ti = ps.fields[1]
                amt = ti.fields[3]
                tlv = spec.tlv_amount
                tv = None
                if tlv is not None and len(tlv) <= 8:
                    tv = 0
                    for b in tlv:
                        tv = sym.add(sym.mul(tv, 256), b)
                if self.inv_amount is not None:
                    raise_if(m, sym.ne(amt, self.inv_amount), 'amount-not-from-invoice', {}, 'classify', 'amount')
                    if tv is not None:
                        raise_if(m, sym.ne(tv, self.inv_amount), 'disagreeing-amount-field-accepted', {'tlv_len': len(tlv)}, 'classify', 'amount-field')
                else:
                    if tv is None:
                        raise Violation('amountless-without-usable-amount-field', {'tlv_len': None if tlv is None else len(tlv)}, 'classify', 'amount-field')
                    raise_if(m, sym.ne(amt, tv), 'amount-not-from-amount-field', {'tlv_len': len(tlv)}, 'classify', 'amount')
                # payee = key the signature verifies against; bolt11 = exactly the record's bytes
                payee = ti.fields[2]
                if not (isinstance(payee, Adt) and payee.fields[0] == m.st.env.invoices[bytes(inv.bytes())].payee.fields[0]):
                    raise Violation('payee-not-from-invoice', {'payee': repr(payee)}, 'classify', 'payee')
                b11 = ti.fields[0]
                if not (isinstance(b11, Seq) and b11.items == inv.bytes()):
                    raise Violation('bolt11-altered', {'bolt11': repr(b11)}, 'classify', 'bolt11')
        else:
            if resp is not None and resp_is(resp, 'Fail'):
                Classification.seen.add('fail')
                # the only immediate failure is the self-route-hint one
                raise_if(m, sym.not_(sym.and_(self_last, sym.not_(allow))), 'failed-without-reason', {}, 'classify', 'spurious-fail')
            elif resp is not None and resp_is(resp, 'Continue'):
                Classification.seen.add('continue')
        # disallowed self hint on an otherwise valid invoice must fail, never be held
        if resp is None and not classified:
            raise Violation('neither-answered-nor-held', {}, 'classify', 'limbo')
    def on_task_panic(self, m, sc, task, exc):
        raise Violation('task-panic', {'panic': str(exc.msg)[:200]}, 'handler.panic', 'panic')

def build(tlv_len, with_amount):
    H, HK = sym.var('H'), sym.var('HK')
    pc = []
    hints = [[sym.var('hop00'), sym.var('hop01')], [sym.var('hop10')]]
    inv_amount = sym.var('inv_amount') if with_amount else None
    inv = InvoiceSpec(1, H, inv_amount, sig_ok=sym.var('sig_ok', 'B'), hints=hints)
    a, f, t = sym.var('h0_amount'), sym.var('h0_forward'), sym.var('h0_total')
    ce, cr = sym.var('h0_cltv'), sym.var('h0_cltv_rel')
    pc.extend([sym.and_(sym.le(0, a), sym.le(a, MAX_MSAT)), sym.in_range(f, U64), sym.in_range(t, U64), sym.in_range(ce, U32), sym.in_range(cr, I64)])
    tlv = None
    if tlv_len is not None:
        tlv = [sym.var('ta%d' % i) for i in range(tlv_len)]
        pc += [sym.and_(sym.le(0, b), sym.le(b, 255)) for b in tlv]
    spec = HtlcSpec(0, invoice=0, hash=HK, amount=a, forward=f, total=t, cltv_expiry=ce, cltv_rel=cr, tlv_amount=tlv)
    cfg = dict(htlcs=[spec], invoices=[inv], store_init='free_absent', allow_self=sym.var('allow_self', 'B'))
    return cfg, pc

class LaterSelfHint:
    """HTLC 1 carries an invoice with a disallowed self route hint: `fail` on its first poll, never held, never settled."""
    def on_response(self, m, sc, k, resp):
        if k != 1:
            return
        t = [t for t in m.st.sched.tasks if m.st.roots['task_of'].get(t.tid) == k][-1]
        if not (isinstance(resp, Adt) and resp.variant == 'Fail') or t.polls != 1:
            raise Violation('later-self-hint-accepted', {'htlc': 1, 'response': resp.variant if isinstance(resp, Adt) else repr(resp), 'polls': t.polls},
                            'classify', 'self-hint-later-htlc')
    def on_quiescent(self, m, sc):
        if 1 in m.st.roots['delivered'] and not any(k == 1 for (_e, k) in m.st.roots['responses']):
            raise Violation('later-self-hint-accepted', {'htlc': 1, 'response': 'held'}, 'classify', 'self-hint-later-htlc')

def main(tier, seed, args):
    rep = Report(PID, tier, seed, 'model_checking')
    c = ctx('on')
    lens = (None, 0, 1, 8, 9) if tier == 'quick' else (None, 0, 1, 2, 3, 4, 5, 6, 7, 8, 9)
    rep.bounds = {'amount_field_lengths': [('absent' if l is None else l) for l in lens], 'invoice_amount': ['present', 'absent'],
                  'route_hints': '2 hints (2 hops + 1 hop) with symbolic node ids, possibly equal to the local key', 'signature': 'symbolic valid/invalid',
                  'hash': 'symbolic equal/different', 'self_route_hint_setting': 'symbolic', 'outside': 'more hints/hops; bech32/secp256k1 themselves (oracle)'}
    rep.assumptions = ['invoice oracle: parse/check_signature/payee/amount/hash/route_hints are uninterpreted attributes of the invoice bytes',
                       'get_payee_pub_key on an invoice without a valid signature panics (as documented in the source comment)']
    rep.trusted = ['mirsym', 'z3', 'invoice oracle', 'bytes/std contracts']
    from .c20 import run_explorer
    seen_c = seen_f = False
    for with_amount in (True, False):
        for l in lens:
            cfg, pc = build(l, with_amount)
            mon = Classification(l, sym.var('inv_amount') if with_amount else None)
            sc = scen_common.ScenarioWithPc(c, cfg, [mon], pc)
            name = 'classify[invoice amount %s, amount field %s]' % ('present' if with_amount else 'absent', 'absent' if l is None else '%d bytes' % l)
            ex = run_explorer(rep, c, sc, name, max_states=100000, time_budget=300 if tier == 'quick' else 1800)
            scen_common.report(rep, PID, name, ex, sc)
            if rep.violations:
                break
        if rep.violations:
            break
    if not rep.violations:
        # the same rules hold for every HTLC, not only for the one that opens a payment: a later HTLC of the same hash
        # whose (different, validly signed) invoice names the local node as last hop of a hint, with self hints
        # disallowed, is failed at once -- whatever state the payment opened by the first HTLC is in
        from ..scenario import HtlcSpec as _H
        H = sym.var('H')
        local = sym.var('local_node_id')
        inv_a = InvoiceSpec(1, H, 1000000)
        inv_b = InvoiceSpec(2, H, 1000000, hints=[[sym.var('hopb0'), local]])
        h0 = _H(0, invoice=0, hash=H, amount=1006000, forward='amount', total=1006000, cltv_expiry=3000, cltv_rel=1500)
        h1 = _H(1, invoice=1, hash=H, amount=1000, forward='amount', total=1006000, cltv_expiry=3001, cltv_rel=1500)
        cfg = dict(htlcs=[h0, h1], invoices=[inv_a, inv_b], store_init='free_absent', allow_self=False, max_parts=1, pay_outcomes=('complete',),
                   policy=(1000, 5000, 1008), cltv_delta=34, height=100, deliver_in_order=True)
        scen_common.run_configs(rep, PID, c, [('self route hint on a later htlc of a payment in progress', cfg, [], [LaterSelfHint()], {})],
                                300 if tier == 'quick' else 1800)
    miss = [x for x in ('trampoline', 'fail', 'continue') if x not in Classification.seen]
    if miss and not rep.violations:
        rep.inconclusive.append('vacuity guard: classification outcomes never reached: %s' % miss)
    rep.parts['classification_outcomes_reached'] = sorted(Classification.seen)
    finish(rep, [c], './check C10 --tier ' + tier)

def replay_cex(path):
    return scen_common.replay_cex(PID, path)
