"""Scenario counterexample -> native script (replay/src/scen_manager.rs), and the per-violation
judgement of the native observation."""
import re
import json
from .. import sym
from ..sym import T
from ..values import Seq, Adt

def ev(t, mdl):
    if t is None:
        return None
    v = sym.evaluate(t, mdl) if isinstance(t, T) else t
    return str(int(v)) if not isinstance(v, bool) else v

def model_of(m):
    memo = {}
    mdl = m.solver.model([sym.exact_mul(c, memo) for c in m.pc])
    if mdl is None:
        raise RuntimeError('path condition of the violating state is unsat')
    class D(dict):
        def __missing__(self, k):
            return 0
    return D(mdl)

def htlc_op(sc, spec, mdl, epoch=0):
    cfg = sc.cfg
    op = {'op': 'htlc', 'k': spec.idx, 'amount': ev(spec.amount, mdl), 'cltv': ev(spec.cltv_expiry, mdl),
          'cltv_rel': ev(spec.cltv_rel, mdl), 'scid': bool(spec.scid), 'invoice': spec.invoice}
    fwd = spec.forward
    if fwd == 'amount':
        fwd = spec.amount
    op['forward'] = ev(fwd, mdl)
    op['total'] = ev(spec.total, mdl)
    if spec.invoice is not None:
        inv = cfg['invoices'][spec.invoice]
        same = sym.evaluate(sym.eq(spec.hash, inv.hash), mdl) if (isinstance(spec.hash, T) or isinstance(inv.hash, T)) else (spec.hash == inv.hash)
        op['hash'] = 'own' if same else 'other'
    if spec.tlv_amount is not None:
        op['tlv_amount'] = bytes(int(sym.evaluate(b, mdl)) if isinstance(b, T) else b for b in spec.tlv_amount).hex()
    rm = getattr(spec, 'raw_meta', None)
    if getattr(spec, 'meta_prefix', None):
        op['meta_prefix'] = [{'typ': str(t), 'value': bytes(v).hex()} for t, v in spec.meta_prefix]
    if spec.extra_payload:
        op['extra_payload'] = [{'typ': str(t), 'value': bytes(int(sym.evaluate(b, mdl)) if isinstance(b, T) else b for b in v).hex()} for t, v in spec.extra_payload]
    if rm is not None:
        rec = {'typ': '16', 'value': bytes(int(sym.evaluate(b, mdl)) if isinstance(b, T) else b for b in rm).hex()}
        pos = getattr(spec, 'raw_meta_pos', None)
        lst = op.setdefault('extra_payload', [])
        if pos is None:
            lst.append(rec)
        else:
            lst.insert(pos, rec)
    if False:
        op['extra_payload'] = [{'typ': str(t), 'value': bytes(v).hex()} for t, v in spec.extra_payload]
    return op

def _ds_signature(m, call):
    from ..env_node import field as _field, _short as _sh
    keyv = _field(m, call.args, 'key')
    kind = 'attempts' if len(keyv.items) > 4 else 'state'
    mode = _field(m, call.args, 'mode')
    modes = {'MUST_CREATE': 'must-create', 'MUST_REPLACE': 'must-replace', 'CREATE_OR_REPLACE': 'create-or-replace'}
    want = {'key_kind': kind}
    if mode.variant == 'Some':
        want['mode'] = modes.get(mode.fields[0].variant, 'must-create')
    sv = _sh(_field(m, call.args, 'string'))
    for tag in ('Free', 'Pending', 'Succeeded'):
        if tag in sv:
            want['string_contains'] = tag
    want['has_generation'] = _field(m, call.args, 'generation').variant == 'Some'
    return want

def script_from_state(m, sc, v, trail=None):
    cfg = sc.cfg
    st = m.st
    env = st.env
    mdl = model_of(m)
    pol = st.roots['policy']
    config = {'policy': {'base': ev(pol[0], mdl), 'ppm': ev(pol[1], mdl), 'delta': ev(pol[2], mdl)},
              'cltv_delta': ev(st.roots['cltv_delta'], mdl), 'mpp_timeout_s': cfg['mpp_timeout_s'] if not isinstance(cfg['mpp_timeout_s'], T) else ev(cfg['mpp_timeout_s'], mdl),
              'allow_self': cfg['allow_self'] if isinstance(cfg['allow_self'], bool) else bool(sym.evaluate(cfg['allow_self'], mdl)), 'xpay': cfg['xpay'],
              'height': ev(cfg['height'] if cfg['height'] is not None else sym.var('height0'), mdl)}
    invoices = []
    for iv in cfg['invoices']:
        sig = iv.sig_ok if isinstance(iv.sig_ok, bool) else bool(sym.evaluate(iv.sig_ok, mdl))
        self_hint = False
        hint_shapes = []
        for hops in iv.hints:
            shape = [bool(sym.evaluate(sym.eq(h, sym.var('local_node_id')), mdl)) for h in hops]
            hint_shapes.append(shape)
            if shape and shape[-1]:
                self_hint = True
        ent = {'ident': iv.ident, 'amount': ev(iv.amount, mdl), 'sig_ok': sig, 'self_hint': self_hint, 'hints': hint_shapes}
        # two different invoices for one payment hash: natively the later one takes the hash of the earlier
        for j, prev in enumerate(cfg['invoices'][:len(invoices)]):
            try:
                same = (prev.hash is iv.hash) or bool(sym.evaluate(sym.eq(prev.hash, iv.hash), mdl))
            except Exception:
                same = False
            if same:
                ent['hash_of'] = invoices[j].get('hash_of', prev.ident)
                break
        invoices.append(ent)
    setup = []
    mode = st.roots.get('store_init', 'free_absent')
    inv0 = cfg['invoices'][0].ident
    gen0 = ev(sym.var('gen0'), mdl)
    if mode == 'free' and any(k[-1] == 'state' for k in env.datastore) or mode == 'free':
        if 'store.free.absent?' in json.dumps(trail.to_list() if trail else []):
            pass
    specs = {s.idx: s for s in cfg['htlcs']}
    steps = []
    pending_delivery = set()
    # Natively an RPC answer makes its task run at once, while in the model a linearised answer may sit unconsumed while
    # other tasks are polled.  Answers are therefore held back (in order) across deliveries and polls of *other* tasks and
    # handed over when the model polls the task that issued the call, or before any other step that reads or changes node
    # state -- an equivalent schedule (a linearisation commutes with polls of other tasks).
    deferred = []        # [(issuing task, op)]
    def flush(upto_task=None):
        if not deferred:
            return
        if upto_task is not None and not any(t == upto_task for t, _ in deferred):
            return
        last = max(i for i, (t, _) in enumerate(deferred) if upto_task is None or t == upto_task)
        for t, op in deferred[:last + 1]:
            steps.append(op)
            steps.append({'op': 'settle'})
        del deferred[:last + 1]
    tl = trail.to_list() if trail is not None else []
    for stp in tl:
        lab = stp['step']
        ch = dict((l, c) for l, c in stp['choices'])
        mmp = re.match(r'^poll .*#(\d+)$', lab)
        if mmp:
            flush(int(mmp.group(1)))
        elif not lab.startswith(('deliver ', 'lin ', 'init')):
            flush()
        if lab == 'init':
            if mode == 'free' and ch.get('store.free.absent?', 0) == 1:
                setup.append({'op': 'store', 'inv': inv0, 'state': 'free', 'generation': gen0})
            elif mode == 'pending':
                now_age = 0
                at = sym.var('attempt_time0')
                try:
                    age = (int(sym.evaluate(env.clock, mdl)) // 1000000000) - int(mdl['attempt_time0']) if isinstance(env.clock, T) else int(cfg.get('native_pending_age_s', 0))
                except Exception:
                    age = int(cfg.get('native_pending_age_s', 0))
                if age < 0:
                    # whole-second granularity of the stored attempt time: exaggerate a future-dated attempt so that the
                    # native demonstration does not depend on sub-second fractions
                    age = min(age, -(int(config['mpp_timeout_s']) + 5)) if int(config['mpp_timeout_s']) < 10 ** 6 else age
                age = max(-86400 * 365, min(age, 86400 * 365 * 30))
                setup.append({'op': 'store', 'inv': inv0, 'state': 'pending', 'generation': gen0,
                              'age_s': str(age), 'attempt_record': cfg.get('pending_has_attempt_record', True)})
                for i in range(cfg.get('pending_parts', 1)):
                    stt = ('pending', 'complete', 'failed')[ch.get('old.part%d' % i, 0)]
                    op_ = {'op': 'old_part', 'inv': inv0, 'status': stt}
                    if cfg.get('old_parts_in_groups'):
                        op_.update({'groupid': 1 + i, 'partid': 1})
                    setup.append(op_)
            elif mode == 'succeeded':
                setup.append({'op': 'store', 'inv': inv0, 'state': 'succeeded', 'generation': gen0})
                setup.append({'op': 'old_part', 'inv': inv0, 'status': 'complete'})
            continue
        mm = re.match(r'^deliver htlc(\d+)$', lab)
        if mm:
            # natively a handler starts running as soon as it is spawned: deliver at the model's first poll
            pending_delivery.add(int(mm.group(1)))
            continue
        mm = re.match(r'^poll htlc(\d+)#', lab)
        if mm and int(mm.group(1)) in pending_delivery:
            pending_delivery.discard(int(mm.group(1)))
            if v.kind == 'timer-not-started-after-store-answer' and any(x.get('op') == 'htlc' for x in steps):
                # a timer armed again when a further part arrives: let 0.6 of the MPP period pass before that part, and
                # again at the end -- on time means answered by then, a re-armed timer means still waiting
                steps.append({'op': 'advance', 'ms': int(config['mpp_timeout_s']) * 600})
                steps.append({'op': 'settle'})
            steps.append(htlc_op(sc, specs[int(mm.group(1))], mdl))
            steps.append({'op': 'settle'})
            continue
        mm = re.match(r'^lin (\w+)#(\d+)$', lab)
        if mm:
            op = {'op': 'rpc', 'method': mm.group(1)}
            if mm.group(1) == 'datastore':
                # several writes may be outstanding (two lifecycles): name the one the model linearised here, and when
                # several outstanding writes look alike, which of them in order of issue
                try:
                    cid = int(mm.group(2))
                    want = _ds_signature(m, env.calls[cid])
                    idx_call, idx_ret = {}, {}
                    for i, e in enumerate(st.events):
                        if e[0] == 'rpc_call' and e[2] == 'datastore':
                            idx_call.setdefault(e[1], i)
                        elif e[0] == 'rpc_lin' and e[2] == 'datastore':
                            idx_ret.setdefault(e[1], i)
                    here = idx_ret.get(cid, len(st.events))
                    rank = 0
                    for other, ic in idx_call.items():
                        if other == cid or ic > idx_call.get(cid, 0) or ic > here:
                            continue
                        if idx_ret.get(other, len(st.events) + 1) < here:
                            continue
                        if _ds_signature(m, env.calls[other]) == want:
                            rank += 1
                    if rank:
                        want = dict(want, skip=rank)
                    op['match'] = want
                except Exception:
                    pass
            for l, c in stp['choices']:
                if l.startswith('fault?') and c > 0:
                    code = env.fault_codes[c - 1][0]
                    op['fault'] = code if env.fault_codes[c - 1][1] == 'Rpc' else 'transport'
                if l == 'write-fault?' and c > 0:
                    op['write_fault'] = 'reject' if c == 1 else 'lost-ack'
                if l == 'waitsendpay.code':
                    op['code'] = env.wait_fail_codes[c]
            if mm.group(1) == 'waitsendpay' and 'code' not in op:
                op['code'] = env.wait_fail_codes[0]
            try:
                if mm.group(1) == 'waitsendpay' and env.calls[int(mm.group(2))].info.get('timeout_answer'):
                    op['code'] = 200
            except Exception:
                pass
            if mm.group(1) == 'waitsendpay':
                # several waits may be outstanding (one per pending part): name the part this answer is for
                try:
                    p = env.find_part(m, env.calls[int(mm.group(2))])
                    if p is not None:
                        op['match'] = {'partid': p.partid, 'groupid_old': p.groupid == 1}
                except Exception:
                    pass
            try:
                owner = env.calls[int(mm.group(2))].task
            except Exception:
                owner = None
            if v.kind in TIME_KINDS:
                # time the model lets pass while this call is outstanding (last clock reading of its task before the call,
                # first one after the answer was consumed): natively the paused clock is moved before the answer arrives
                try:
                    cid = int(mm.group(2))
                    i_call = next(i for i, e in enumerate(st.events) if e[0] == 'rpc_call' and e[1] == cid)
                    i_ret = next(i for i, e in enumerate(st.events) if e[0] == 'rpc_return' and e[1] == cid)
                    before = [e[1] for e in st.events[:i_call] if e[0] == 'clock']
                    after = [e[1] for e in st.events[i_ret:] if e[0] == 'clock']
                    if before and after:
                        d_ms = (int(sym.evaluate(after[0], mdl)) - int(sym.evaluate(before[-1], mdl))) // 1000000
                        if d_ms > 0:
                            deferred.append((owner, {'op': 'advance', 'ms': min(d_ms + 1, 10 ** 13)}))
                except StopIteration:
                    pass
            deferred.append((owner, op))
            continue
        mm = re.match(r'^part(\d+)->(\w+)$', lab)
        if mm:
            steps.append({'op': 'part', 'id': int(mm.group(1)), 'status': mm.group(2)})
            continue
        mm = re.match(r'^pay#(\d+) (starts|creates part|returns (.*))$', lab)
        if mm:
            if mm.group(2) == 'creates part':
                steps.append({'op': 'pay_part', 'inv': inv0})
            elif mm.group(2).startswith('returns'):
                # like every answer: handed over when the model polls the task that waits for it
                try:
                    owner = env.calls[int(mm.group(1))].task
                except Exception:
                    owner = None
                deferred.append((owner, {'op': 'rpc', 'method': 'pay', 'outcome': mm.group(3), 'inv': inv0}))
            continue
        mm = re.match(r'^fire (timer\d+)$', lab)
        if mm:
            dur_ns = None
            for e in st.events:
                if e[0] == 'timer_created' and e[1] == mm.group(1):
                    dur_ns = e[3]
            ms = int(sym.evaluate(dur_ns, mdl)) // 1000000 if dur_ns is not None else 60000
            steps.append({'op': 'advance', 'ms': ms + 1})
            continue
        if lab == 'block arrives':
            hs = st.roots.get('block_heights', [])
            nb = len([x for x in steps if x.get('op') == 'block'])
            steps.append({'op': 'block', 'height': ev(hs[nb] if nb < len(hs) else env.height, mdl)})
            continue
        if lab == 'height poll':
            # the watcher's poll loop fires after its 60 s interval; its getinfo stays outstanding unless the model answers it
            steps.append({'op': 'advance', 'ms': 60001})
            steps.append({'op': 'settle'})
            continue
        if lab == 'CRASH':
            steps.append({'op': 'restart'})
            # replayed HTLCs may carry changed fields (relative expiry shrunk while the plugin was down)
            specs = {s_.idx: s_ for s_ in st.roots.get('specs', cfg['htlcs'])}
            continue
        if lab.startswith('poll '):
            if not steps or steps[-1].get('op') != 'settle':
                steps.append({'op': 'settle'})
            continue
    for k in sorted(pending_delivery):
        if v.kind == 'pay-budget':
            break         # judged at the instant `pay` is issued: HTLCs the model had not handed over by then stay away
        steps.append(htlc_op(sc, specs[k], mdl))
        steps.append({'op': 'settle'})
    if v.kind not in LOCK_KINDS:
        flush()           # (lock probes run while the answers the model had not handed over yet are still outstanding)
    # wall-clock time the model let pass since a stored attempt was recorded (natively SystemTime is not the paused tokio
    # clock): after the last restart the stored Pending attempt is made that much older
    try:
        ridx = max(i for i, x in enumerate(steps) if x.get('op') == 'restart')
        for key, ent in env.datastore.items():
            tok = ent[0].tag if isinstance(ent[0], Seq) else None
            val = getattr(tok, 'value', None)
            if key[-1] == 'state' and isinstance(val, Adt) and val.variant == 'Pending':
                at = val.fields[1]
                now_s = int(sym.evaluate(env.clock, mdl)) // 1000000000 if isinstance(env.clock, T) else 0
                at_s = int(sym.evaluate(at, mdl)) if isinstance(at, T) else int(at)
                if now_s > at_s:
                    steps.insert(ridx + 1, {'op': 'age_records', 's': min(now_s - at_s, 86400 * 365 * 30)})
                break
    except ValueError:
        pass
    if v.kind == 'timer-not-started-after-store-answer':
        steps.append({'op': 'advance', 'ms': int(config['mpp_timeout_s']) * 600})
        steps.append({'op': 'settle'})
    if v.kind in ('restart-grants-more-than-one-period', 'wrong-restart-timeout', 'wrong-timeout'):
        # the counterexample ends when the timer is armed: probe natively one MPP period (+0.5 s) later
        steps.append({'op': 'advance', 'ms': int(config['mpp_timeout_s']) * 1000 + 500})
        steps.append({'op': 'settle'})
    if v.kind in LOCK_KINDS:
        # is the payments lock still usable?  deliver an HTLC of an unrelated payment and see whether its lifecycle starts
        invoices.append({'ident': 9, 'amount': '1000', 'sig_ok': True, 'self_hint': False})
        steps.append({'op': 'htlc', 'k': 99, 'amount': '100000', 'cltv': '5000', 'cltv_rel': '4000', 'scid': False,
                      'invoice': len(invoices) - 1, 'forward': '100000', 'total': '100000', 'hash': 'own'})
        steps.append({'op': 'settle'})
    return {'config': config, 'invoices': invoices, 'setup': setup, 'steps': steps,
            'model': {k: str(x) for k, x in mdl.items() if '!' not in k}}

# ----------------------------------------------------------------------------
# judgement of native observations
# ----------------------------------------------------------------------------
def msat(v):
    """cln-rpc serialises Amount as an integer or as '<n>msat'."""
    if v is None:
        return None
    if isinstance(v, (int, float)):
        return int(v)
    s = str(v)
    return int(s[:-4]) if s.endswith('msat') else int(s)

def _amounts(script):
    return dict((s['k'], int(s['amount'])) for s in script['steps'] if s.get('op') == 'htlc')

def _pay_events(nat):
    return [e for e in nat.get('trace', []) if e.get('event') == 'rpc' and e.get('method') == 'pay']

def _resp(nat, k, epoch=None):
    out = [r for r in nat.get('responses', []) if r['k'] == k and (epoch is None or r['epoch'] == epoch)]
    return out[-1]['response'] if out else None

def required(script, deliver):
    p = script['config']['policy']
    return deliver + int(p['base']) + deliver * int(p['ppm']) // 1000000

def deliver_amount(script, k=None):
    inv = script['invoices'][0]
    if inv['amount'] is not None:
        return int(inv['amount'])
    for s in script['steps']:
        if s.get('op') == 'htlc' and s.get('tlv_amount') is not None and len(s['tlv_amount']) <= 16:
            return int(s['tlv_amount'] or '0', 16)
    return None

def judge(pid, v, script, nat):
    if nat.get('outcome') != 'ok':
        return False, 'native run failed: %s' % json.dumps(nat)[:300]
    kind = v.kind
    f = JUDGES.get(kind)
    if f is None:
        return False, 'no native judgement implemented for violation kind %s' % kind
    return f(v, script, nat)

def j_pay_budget(v, script, nat):
    pays = _pay_events(nat)
    if not pays:
        return False, 'no pay call was observed natively'
    amts = _amounts(script)
    for e in pays:
        held = sum(amts.get(k, 0) for (_ep, k) in e.get('held', []))
        deliver = deliver_amount(script)
        p = e['params']
        if deliver is None:
            return False, 'cannot determine the amount to deliver'
        if script['invoices'][0]['amount'] is None:
            if msat(p.get('amount_msat')) != deliver:
                return True, 'amount argument %s != declared %s' % (p.get('amount_msat'), deliver)
        elif p.get('amount_msat') is not None:
            return True, 'amount argument present for a fixed-amount invoice'
        if held < required(script, deliver):
            return True, 'pay issued while holding %d < required %d' % (held, required(script, deliver))
        if p.get('maxfee') is None or msat(p['maxfee']) > held - deliver:
            return True, 'maxfee %s > held %d - amount %d' % (p.get('maxfee'), held, deliver)
    return False, 'pay calls respected the budget natively: %s' % [(e['params'].get('maxfee'), e.get('held')) for e in pays]

def j_answered_while_paying(v, script, nat):
    tr = nat.get('trace', [])
    delivered = []
    for e in tr:
        if e.get('event') == 'htlc':
            delivered.append((e['epoch'], e['k']))
        if e.get('event') == 'rpc' and e.get('method') == 'pay':
            held = [tuple(x) for x in e.get('held', [])]
            gone = [d for d in delivered if d not in held]
            if gone:
                return True, 'htlcs %s answered before pay returned' % gone
    return False, 'all htlcs still held when pay returned'

TIME_KINDS = ('gate-not-enforced',)
LOCK_KINDS = ('blocking-send-under-lock', 'rpc-under-payments-lock', 'timer-under-payments-lock', 'self-deadlock', 'other-hash-delayed',
              'lock-wait-under-payments-lock')

def j_lock(v, script, nat):
    import hashlib
    probe_hash = hashlib.sha256(bytes([10] * 32)).hexdigest()
    started = any(e.get('event') == 'rpc' and e.get('method') == 'listdatastore' and probe_hash in json.dumps(e.get('params'))
                  for e in nat.get('trace', []))
    answered = _resp(nat, 99) is not None
    if not started and not answered:
        return True, 'an htlc of an unrelated payment could not even start (payments lock is held): pending calls %s, waiting %s' % (
            nat.get('pending_calls'), nat.get('still_waiting'))
    return False, 'the unrelated payment made progress natively'

def _htlc_ops(script):
    return dict((s['k'], s) for s in script['steps'] if s.get('op') == 'htlc')

def fee_ok(script, total, amount):
    p = script['config']['policy']
    prod = amount * int(p['ppm'])
    q = prod // 1000000
    M = 2 ** 64 - 1
    return prod <= M and int(p['base']) + q <= M and amount + int(p['base']) + q <= M and total >= amount + int(p['base']) + q

def deliver_for(script, op):
    inv = script['invoices'][op['invoice']] if op.get('invoice') is not None else None
    if inv is None:
        return None
    if inv['amount'] is not None:
        return int(inv['amount'])
    if op.get('tlv_amount') is not None:
        return int(op['tlv_amount'] or '0', 16)
    return None

def rejecting(script, op):
    d = deliver_for(script, op)
    if d is None:
        return False
    total = int(op['total']) if op.get('total') is not None else int(op['forward'] or 0)
    return (not fee_ok(script, total, d)) or int(op['cltv_rel']) < int(script['config']['policy']['delta'])

def j_pay_conflict(v, script, nat):
    ops = _htlc_ops(script)
    for e in _pay_events(nat):
        held = [k for (_e, k) in e.get('held', [])]
        if all(k in held for k in v.detail.get('htlcs', [])):
            return True, 'pay issued while conflicting htlcs %s were held' % v.detail.get('htlcs')
    return False, 'no pay call with the conflicting htlcs held'

def j_pay_after_rejection(v, script, nat):
    ops = _htlc_ops(script)
    order = [e['k'] for e in nat.get('trace', []) if e.get('event') == 'htlc']
    for e in _pay_events(nat):
        held = [k for (_e, k) in e.get('held', [])]
        for k in held:
            op = ops[k]
            before = [j for j in order[:order.index(k)] if j in held]
            tot = sum(int(ops[j]['amount']) for j in before)
            d = deliver_for(script, op)
            if d is not None and rejecting(script, op) and not fee_ok(script, tot, d):
                return True, 'pay issued although htlc %d was rejecting on an incomplete set' % k
    return False, 'no pay after a rejection natively'

def j_different(v, script, nat):
    by_epoch = {}
    for r in nat.get('responses', []):
        by_epoch.setdefault(r['epoch'], []).append(json.dumps(r['response'], sort_keys=True))
    for ep, rs in by_epoch.items():
        if len(set(rs)) > 1:
            return True, 'htlcs of one payment got different responses: %s' % sorted(set(rs))
    if nat.get('still_waiting') and nat.get('responses'):
        return True, 'some htlcs answered, others left waiting: %s' % nat.get('still_waiting')
    return False, 'all responses equal natively'

def policy_hex(script):
    p = script['config']['policy']
    return '201a%08x%08x%04x' % (int(p['base']), int(p['ppm']), int(p['delta']))

def j_policy(v, script, nat):
    k = v.detail.get('htlc', 0)
    r = _resp(nat, k)
    if r is None:
        return False, 'htlc %s got no response natively' % k
    msg = r.get('failure_message')
    if v.kind == 'policy-not-carried':
        if r.get('result') == 'fail' and msg and msg.startswith('201a') and msg != policy_hex(script):
            return True, 'fee/expiry failure %s does not carry the policy %s' % (msg, policy_hex(script))
        return False, 'response %s' % r
    ops = _htlc_ops(script)
    if rejecting(script, ops[k]) and not (r.get('result') == 'fail' and msg == policy_hex(script)):
        return True, 'first htlc fails the gate but got %s' % r
    return False, 'gate respected natively: %s' % r

def j_expiry(v, script, nat):
    ops = _htlc_ops(script)
    cfg = script['config']
    height = int(cfg['height'])
    tr = nat.get('trace', [])
    for i, e in enumerate(tr):
        if e.get('event') == 'block':
            height = max(height, int(e['height']))      # a stale height told later does not lower the chain
        if e.get('event') == 'rpc' and e.get('method') == 'pay':
            held = [k for (_e, k) in e.get('held', [])]
            # "held when the payment was initiated": natively the instant the lifecycle reads the table is not observable;
            # it lies after the stored state was fetched and after the set became complete.  Only HTLCs delivered before
            # the later of those two events are certainly counted -- HTLCs arriving later are left out of the bound
            # (a larger bound: the judgement can only become more lenient).
            amounts = _amounts(script)
            need = None
            try:
                need = required(script, deliver_amount(script))
            except Exception:
                pass
            fetch_i = next((j for j, x in enumerate(tr[:i]) if x.get('event') == 'rpc' and x.get('method') == 'listdatastore'), None)
            got, ready_i = 0, None
            for j, x in enumerate(tr[:i]):
                if x.get('event') == 'htlc' and x.get('k') in held:
                    got += amounts.get(x['k'], 0)
                    if need is not None and got >= need and ready_i is None:
                        ready_i = j
            if fetch_i is not None and ready_i is not None:
                cut = max(fetch_i, ready_i)
                certain = [x['k'] for j, x in enumerate(tr[:i]) if x.get('event') == 'htlc' and x.get('k') in held and j <= cut]
                if certain:
                    held = certain
            mn = min(int(ops[k]['cltv']) for k in held) if held else 0
            md = e['params'].get('maxdelay')
            bound = max(0, mn - height - int(cfg['cltv_delta']))
            if md is None or int(md) > bound or int(md) > int(cfg['policy']['delta']):
                return True, 'maxdelay %s > bound %d (min expiry %d, height %d) or > policy delta' % (md, bound, mn, height)
    return False, 'maxdelay within bounds natively'

def j_foreign(v, script, nat):
    ops = _htlc_ops(script)
    for r in nat.get('responses', []):
        op = ops.get(r['k'])
        if op and op.get('hash') != 'other' and r['response'].get('result') == 'resolve' and op.get('invoice') is not None:
            ident = script['invoices'][op['invoice']]['ident']
            want = bytes([(ident + 1) & 0xff] * 32).hex()
            if r['response'].get('payment_key') != want:
                return True, 'htlc %d settled with key %s which is not the preimage of its hash' % (r['k'], r['response'].get('payment_key'))
        if op and op.get('hash') == 'other' and r['response'].get('result') == 'resolve':
            return True, 'htlc %d (hash differs from the invoice) was resolved' % r['k']
    for e in _pay_events(nat):
        for (_e, k) in e.get('held', []):
            if ops[k].get('hash') == 'other':
                return True, 'invoice paid on behalf of htlc %d whose hash differs' % k
    return False, 'no foreign settlement natively'

def j_panic(v, script, nat):
    if nat.get('task_panics') or nat.get('panics'):
        return True, 'panic: %s' % (nat.get('task_panics') or nat.get('panics'))[:3]
    return False, 'no panic natively'

_NODE_ANSWERS = ('datastore', 'listdatastore', 'listsendpays')      # (getinfo: the block watcher's periodic poll, not part of a payment)

def _starved(nat):
    """The native run ended with a request outstanding that the node always answers: the script (derived from the
    model's run) had no answer for it, i.e. the native execution diverged from the model's.  An unanswered HTLC then
    says nothing about the plugin."""
    return [c for c in nat.get('pending_calls', []) if c in _NODE_ANSWERS]

def _diverged(nat):
    """The script had an answer for a call the native run never made: the native execution left the model's path."""
    return [e.get('method') for e in nat.get('trace', []) if e.get('event') == 'missing_call']

def j_hang(v, script, nat):
    if nat.get('still_waiting') and (_starved(nat) or _diverged(nat)):
        return False, 'native run diverged from the script (unanswered %s, never asked for %s): no verdict on the hang' % (_starved(nat), _diverged(nat)[:4])
    if nat.get('still_waiting'):
        return True, 'htlcs %s never answered (pending calls %s, panics %s)' % (nat['still_waiting'], nat.get('pending_calls'), nat.get('task_panics'))
    return False, 'everything answered natively'

def _walk_parts(nat):
    """Yield (event, parts status dict, running_pay?) along the native trace."""
    parts = {}
    running = False
    for e in nat.get('trace', []):
        if e.get('event') == 'part_created':
            parts[e['id']] = 'pending'
        elif e.get('event') == 'part':
            parts[e['id']] = e['status']
        elif e.get('event') == 'rpc':
            for ent in e.get('parts', []):
                parts[ent[0]] = ent[1]
            if e.get('method') == 'pay':
                running = e.get('answer') is None
        yield e, dict(parts), running

def j_fail_while_live(v, script, nat):
    for e, parts, running in _walk_parts(nat):
        if e.get('event') == 'response' and e['response'].get('result') == 'fail':
            live = [p for p, s in parts.items() if s in ('pending', 'complete')]
            if live:
                return True, 'htlc %d failed back while parts %s were pending/complete' % (e['k'], live)
    return False, 'no fail while a part was live natively'

def j_second_pay(v, script, nat):
    for e, parts, running in _walk_parts(nat):
        if e.get('event') == 'rpc' and e.get('method') == 'pay':
            # parts of *earlier* attempts only: the parts this very command created (its own group) do not count
            own = e.get('own_group')
            live = [ent[0] for ent in e.get('parts', []) if ent[1] in ('pending', 'complete') and (len(ent) < 3 or ent[2] != own)]
            if live:
                return True, 'pay issued while parts %s were pending/complete' % live
    return False, 'no pay over a live attempt natively'

def _state_of(rec):
    s = rec.get('string', '')
    if s.startswith('"Free"'):
        return 'Free'
    if 'Pending' in s:
        return 'Pending'
    if 'Succeeded' in s:
        return 'Succeeded'
    return 'garbled'

def j_understates(v, script, nat):
    for e, parts, running in _walk_parts(nat):
        if e.get('event') == 'rpc':
            live = [p for p, s in parts.items() if s in ('pending', 'complete')]
            recs = e.get('state_records', [])
            state = _state_of(recs[0]) if recs else 'absent'
            if e.get('method') == 'pay' and state != 'Pending' and v.kind == 'pay-before-pending-record':
                return True, 'pay issued with record %s' % state
            if live and state not in ('Pending', 'Succeeded'):
                return True, 'record %s while parts %s are live' % (state, live)
    final = [p['id'] for p in nat.get('parts', []) if p['status'] in ('pending', 'complete')]
    srecs = [d for d in nat.get('datastore', []) if d['key'][-1] == 'state']
    fstate = _state_of(srecs[0]) if srecs else 'absent'
    if final and fstate not in ('Pending', 'Succeeded'):
        return True, 'final record %s while parts %s are live' % (fstate, final)
    return False, 'record never understated natively'

def _bigsize(v):
    if v < 0xfd:
        return bytes([v])
    if v <= 0xffff:
        return b'\xfd' + v.to_bytes(2, 'big')
    if v <= 0xffffffff:
        return b'\xfe' + v.to_bytes(4, 'big')
    return b'\xff' + v.to_bytes(8, 'big')

def j_passthrough(v, script, nat):
    ops = _htlc_ops(script)
    r = _resp(nat, 0)
    calls = [e for e in nat.get('trace', []) if e.get('event') == 'rpc' and e.get('method') != 'get_info']
    if nat.get('task_panics') or nat.get('panics'):
        return True, 'panic: %s' % (nat.get('task_panics') or nat.get('panics'))[:2]
    if r is None:
        return True, 'htlc not answered immediately (pending calls %s)' % nat.get('pending_calls')
    if r.get('result') != 'continue':
        return True, 'response is %s, not continue' % r
    if calls:
        return True, 'RPC calls were made for a non-trampoline htlc: %s' % [c['method'] for c in calls]
    if 'payload' in r and r['payload'] is not None:
        op = ops[0]
        recs = [(int(e['typ']), bytes.fromhex(e['value'])) for e in op.get('extra_payload', [])]
        # expected: every record except the first type-16 one (the invoice-based metadata record, if any, comes last
        # natively and is itself a type-16 record)
        out = []
        removed = op.get('invoice') is not None and not any(t == 16 for t, _v in recs)
        for t, val in recs:
            if t == 16 and not removed:
                removed = True
                continue
            out.append(_bigsize(t) + _bigsize(len(val)) + val)
        exp = b''.join(out)
        if not r['payload'].startswith(exp.hex()):
            return True, 'rewritten payload %s does not preserve the other records %s' % (r['payload'], exp.hex())
    return False, 'passed through natively: %s' % r

def j_plain_held(v, script, nat):
    if _pay_events(nat):
        return True, 'an outgoing payment was started although only a non-trampoline htlc completed the amount'
    r = _resp(nat, 1)
    if r is None:
        return True, 'the plain htlc was not answered (held): waiting %s' % nat.get('still_waiting')
    if r.get('result') != 'continue':
        return True, 'the plain htlc was answered with %s, not continue' % r
    return False, 'the plain htlc was continued natively'

def j_later_self_hint(v, script, nat):
    r = _resp(nat, 1)
    if r is None:
        return True, 'the htlc with the disallowed self route hint was held (not answered): waiting %s' % nat.get('still_waiting')
    if r.get('result') != 'fail':
        return True, 'the htlc with the disallowed self route hint was answered with %s, not failed' % r
    return False, 'failed natively, as expected: %s' % r

def j_timeout(v, script, nat):
    mpp_ms = int(script['config']['mpp_timeout_s']) * 1000
    if _pay_events(nat):
        return True, 'an outgoing payment was started for a set that never completed'
    for e in nat.get('trace', []):
        if e.get('event') == 'response':
            r = e['response']
            if r.get('result') != 'fail' or r.get('failure_message') != '2019':
                return True, 'incomplete set answered with %s' % r
            if v.kind in ('failed-before-timeout', 'wrong-timeout', 'timer-not-started-after-store-answer') and e['t_ms'] < mpp_ms:
                return True, 'failed after %d ms, before the MPP timeout of %d ms' % (e['t_ms'], mpp_ms)
            if e['t_ms'] > mpp_ms + 1000:
                return True, 'failed after %d ms, more than one MPP timeout (%d ms)' % (e['t_ms'], mpp_ms)
    if nat.get('still_waiting') and not _starved(nat):
        total = sum(int(s.get('ms', 0)) for s in script['steps'] if s.get('op') == 'advance')
        if total >= mpp_ms:
            return True, 'still unanswered %d ms after the wait began (MPP timeout %d ms)' % (total, mpp_ms)
    return False, 'timeout behaviour as expected natively'

def j_unpayable(v, script, nat):
    if _diverged(nat):
        # answers left over at the end are dropped, which the plugin sees as RPC errors: failures after a divergence are artefacts
        return False, 'native run diverged from the script (never asked for %s): no verdict' % _diverged(nat)[:4]
    probes = [r for r in nat.get('responses', []) if r['k'] >= 1]
    if any(r['response'].get('result') == 'resolve' for r in probes):
        return False, 'a retry was settled natively'
    want = len([s for s in script['steps'] if s.get('op') == 'htlc' and s['k'] >= 1])
    if want and len(probes) >= want:
        recs = [d for d in nat.get('datastore', []) if d['key'][-1] == 'state']
        return True, 'all %d retries failed natively (%s); state record left as %s' % (
            want, [r['response'].get('failure_message') for r in probes], [d['string'][:40] for d in recs])
    hung = [w for w in nat.get('still_waiting', []) if w[1] >= 1]
    if hung and _starved(nat):
        return False, 'native run diverged from the script (unanswered %s): no verdict on retries %s' % (_starved(nat), hung)
    if want and len(hung) + len(probes) >= want and hung:
        return True, 'retries %s were never answered natively (and %d failed): the hash is stuck' % (hung, len(probes))
    return False, 'retries not all answered natively: %s, waiting %s' % (probes, nat.get('still_waiting'))

def j_classify(v, script, nat):
    """Expected classification of htlc 0 computed from the concrete script vs what the real code did."""
    op = _htlc_ops(script)[0]
    inv = script['invoices'][op['invoice']]
    exp = 'trampoline'
    if op.get('scid') or op.get('forward') is None or not inv['sig_ok'] or op.get('hash') == 'other':
        exp = 'continue'
    else:
        tlv = op.get('tlv_amount')
        tv = int(tlv or '0', 16) if tlv is not None and len(tlv) <= 16 else None
        if inv['amount'] is not None:
            if tv is not None and tv != int(inv['amount']):
                exp = 'continue'
        elif tv is None:
            exp = 'continue'
    if exp == 'trampoline' and any(h and h[-1] for h in inv.get('hints', [])) and not script['config']['allow_self']:
        exp = 'fail'
    started = any(e.get('event') == 'rpc' and e.get('method') == 'listdatastore' for e in nat.get('trace', []))
    r = _resp(nat, 0)
    obs = 'trampoline' if started else (r.get('result') if r else 'unanswered')
    if nat.get('task_panics') or nat.get('panics'):
        return True, 'panic: %s' % (nat.get('task_panics') or nat.get('panics'))[:2]
    if obs != exp:
        return True, 'htlc treated as %s, expected %s (invoice %s, amount field %s, hash %s, allow_self %s)' % (
            obs, exp, inv, op.get('tlv_amount'), op.get('hash'), script['config']['allow_self'])
    return False, 'classified as %s natively, as expected' % obs

JUDGES = {
    'trampoline-without-valid-signature': j_classify,
    'trampoline-with-foreign-hash': j_classify,
    'self-route-hint-accepted': j_classify,
    'amount-not-from-invoice': j_classify,
    'disagreeing-amount-field-accepted': j_classify,
    'amountless-without-usable-amount-field': j_classify,
    'amount-not-from-amount-field': j_classify,
    'failed-without-reason': j_classify,
    'neither-answered-nor-held': j_classify,
    'permanently-unpayable': j_unpayable,
    'blocking-send-under-lock': j_lock,
    'rpc-under-payments-lock': j_lock,
    'timer-under-payments-lock': j_lock,
    'self-deadlock': j_lock,
    'lock-wait-under-payments-lock': j_lock,
    'other-hash-delayed': j_lock,
    'pay-for-incomplete-set': j_timeout,
    'wrong-timeout': j_timeout,
    'timer-not-started-after-store-answer': j_timeout,
    'restart-grants-more-than-one-period': j_timeout,
    'wrong-restart-timeout': j_timeout,
    'failed-before-timeout': j_timeout,
    'wrong-response-for-incomplete-set': j_timeout,
    'plain-htlc-held': j_plain_held,
    'later-self-hint-accepted': j_later_self_hint,
    'side-effect': j_passthrough,
    'not-continue': j_passthrough,
    'state-retained': j_passthrough,
    'waited-on-external-event': j_passthrough,
    'payload-rewritten-wrongly': j_passthrough,
    'pay-with-conflicting-info': j_pay_conflict,
    'pay-after-rejection': j_pay_after_rejection,
    'different-resolutions': j_different,
    'listener-left-behind': j_different,
    'policy-not-carried': j_policy,
    'gate-not-enforced': j_policy,
    'expiry-budget': j_expiry,
    'maxdelay-missing': j_expiry,
    'resolve-with-foreign-preimage': j_foreign,
    'pay-for-foreign-htlc': j_foreign,
    'task-panic': j_panic,
    'handler-never-answered': j_hang,
    'failed-while-outgoing-live': j_fail_while_live,
    'pay-while-attempt-live': j_second_pay,
    'record-understates-payment': j_understates,
    'pay-before-pending-record': j_understates,
    'pay-budget': j_pay_budget,
    'answered-while-paying': j_answered_while_paying,
}
