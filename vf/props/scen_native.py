"""Scenario counterexample -> native script (replay/src/scen_manager.rs), and the per-violation
judgement of the native observation."""
import re
import json
from .. import sym
from ..sym import T
from ..values import Seq

def ev(t, mdl):
    if t is None:
        return None
    v = sym.evaluate(t, mdl) if isinstance(t, T) else t
    return str(int(v)) if not isinstance(v, bool) else v

def model_of(m):
    memo = {}
    mdl = m.solver.model([sym.exact_mul(c, memo) for c in m.pc])
    if mdl is None:
        raise RuntimeError('path condition of the violating state is unsat')
    class D(dict):
        def __missing__(self, k):
            return 0
    return D(mdl)

def htlc_op(sc, spec, mdl, epoch=0):
    cfg = sc.cfg
    op = {'op': 'htlc', 'k': spec.idx, 'amount': ev(spec.amount, mdl), 'cltv': ev(spec.cltv_expiry, mdl),
          'cltv_rel': ev(spec.cltv_rel, mdl), 'scid': bool(spec.scid), 'invoice': spec.invoice}
    fwd = spec.forward
    if fwd == 'amount':
        fwd = spec.amount
    op['forward'] = ev(fwd, mdl)
    op['total'] = ev(spec.total, mdl)
    if spec.invoice is not None:
        inv = cfg['invoices'][spec.invoice]
        same = sym.evaluate(sym.eq(spec.hash, inv.hash), mdl) if (isinstance(spec.hash, T) or isinstance(inv.hash, T)) else (spec.hash == inv.hash)
        op['hash'] = 'own' if same else 'other'
    if spec.tlv_amount is not None:
        op['tlv_amount'] = bytes(int(sym.evaluate(b, mdl)) if isinstance(b, T) else b for b in spec.tlv_amount).hex()
    if spec.extra_payload:
        op['extra_payload'] = [{'typ': str(t), 'value': bytes(v).hex()} for t, v in spec.extra_payload]
    return op

def script_from_state(m, sc, v, trail=None):
    cfg = sc.cfg
    st = m.st
    env = st.env
    mdl = model_of(m)
    pol = st.roots['policy']
    config = {'policy': {'base': ev(pol[0], mdl), 'ppm': ev(pol[1], mdl), 'delta': ev(pol[2], mdl)},
              'cltv_delta': ev(st.roots['cltv_delta'], mdl), 'mpp_timeout_s': cfg['mpp_timeout_s'] if not isinstance(cfg['mpp_timeout_s'], T) else ev(cfg['mpp_timeout_s'], mdl),
              'allow_self': cfg['allow_self'], 'xpay': cfg['xpay'],
              'height': ev(cfg['height'] if cfg['height'] is not None else sym.var('height0'), mdl)}
    invoices = []
    for iv in cfg['invoices']:
        sig = iv.sig_ok if isinstance(iv.sig_ok, bool) else bool(sym.evaluate(iv.sig_ok, mdl))
        self_hint = False
        for hops in iv.hints:
            if hops and bool(sym.evaluate(sym.eq(hops[-1], sym.var('local_node_id')), mdl)):
                self_hint = True
        invoices.append({'ident': iv.ident, 'amount': ev(iv.amount, mdl), 'sig_ok': sig, 'self_hint': self_hint})
    setup = []
    mode = st.roots.get('store_init', 'free_absent')
    inv0 = cfg['invoices'][0].ident
    gen0 = ev(sym.var('gen0'), mdl)
    if mode == 'free' and any(k[-1] == 'state' for k in env.datastore) or mode == 'free':
        if 'store.free.absent?' in json.dumps(trail.to_list() if trail else []):
            pass
    specs = {s.idx: s for s in cfg['htlcs']}
    steps = []
    first = True
    tl = trail.to_list() if trail is not None else []
    for stp in tl:
        lab = stp['step']
        ch = dict((l, c) for l, c in stp['choices'])
        if lab == 'init':
            if mode == 'free' and ch.get('store.free.absent?', 0) == 1:
                setup.append({'op': 'store', 'inv': inv0, 'state': 'free', 'generation': gen0})
            elif mode == 'pending':
                now_age = 0
                at = sym.var('attempt_time0')
                setup.append({'op': 'store', 'inv': inv0, 'state': 'pending', 'generation': gen0,
                              'age_s': str(cfg.get('native_pending_age_s', 0)), 'attempt_record': cfg.get('pending_has_attempt_record', True)})
                for i in range(cfg.get('pending_parts', 1)):
                    stt = ('pending', 'complete', 'failed')[ch.get('old.part%d' % i, 0)]
                    setup.append({'op': 'old_part', 'inv': inv0, 'status': stt})
            elif mode == 'succeeded':
                setup.append({'op': 'store', 'inv': inv0, 'state': 'succeeded', 'generation': gen0})
                setup.append({'op': 'old_part', 'inv': inv0, 'status': 'complete'})
            continue
        mm = re.match(r'^deliver htlc(\d+)$', lab)
        if mm:
            steps.append(htlc_op(sc, specs[int(mm.group(1))], mdl))
            continue
        mm = re.match(r'^lin (\w+)#(\d+)$', lab)
        if mm:
            op = {'op': 'rpc', 'method': mm.group(1)}
            for l, c in stp['choices']:
                if l.startswith('fault?') and c > 0:
                    code = env.fault_codes[c - 1][0]
                    op['fault'] = code if env.fault_codes[c - 1][1] == 'Rpc' else 'transport'
                if l == 'write-fault?' and c > 0:
                    op['write_fault'] = 'reject' if c == 1 else 'lost-ack'
                if l == 'waitsendpay.code':
                    op['code'] = env.wait_fail_codes[c]
            if mm.group(1) == 'waitsendpay' and 'code' not in op:
                op['code'] = env.wait_fail_codes[0]
            steps.append(op)
            continue
        mm = re.match(r'^part(\d+)->(\w+)$', lab)
        if mm:
            steps.append({'op': 'part', 'id': int(mm.group(1)), 'status': mm.group(2)})
            continue
        mm = re.match(r'^pay#(\d+) (starts|creates part|returns (.*))$', lab)
        if mm:
            if mm.group(2) == 'creates part':
                steps.append({'op': 'pay_part', 'inv': inv0})
            elif mm.group(2).startswith('returns'):
                steps.append({'op': 'rpc', 'method': 'pay', 'outcome': mm.group(3), 'inv': inv0})
            continue
        mm = re.match(r'^fire (timer\d+)$', lab)
        if mm:
            dur_ns = None
            for e in st.events:
                if e[0] == 'timer_created' and e[1] == mm.group(1):
                    dur_ns = e[3]
            ms = int(sym.evaluate(dur_ns, mdl)) // 1000000 if dur_ns is not None else 60000
            steps.append({'op': 'advance', 'ms': ms + 1})
            continue
        if lab == 'block arrives':
            steps.append({'op': 'block', 'height': ev(env.height, mdl)})
            continue
        if lab == 'CRASH':
            steps.append({'op': 'restart'})
            continue
        if lab.startswith('poll '):
            if not steps or steps[-1].get('op') != 'settle':
                steps.append({'op': 'settle'})
            continue
    return {'config': config, 'invoices': invoices, 'setup': setup, 'steps': steps,
            'model': {k: str(x) for k, x in mdl.items() if '!' not in k}}

# ----------------------------------------------------------------------------
# judgement of native observations
# ----------------------------------------------------------------------------
def msat(v):
    """cln-rpc serialises Amount as an integer or as '<n>msat'."""
    if v is None:
        return None
    if isinstance(v, (int, float)):
        return int(v)
    s = str(v)
    return int(s[:-4]) if s.endswith('msat') else int(s)

def _amounts(script):
    return dict((s['k'], int(s['amount'])) for s in script['steps'] if s.get('op') == 'htlc')

def _pay_events(nat):
    return [e for e in nat.get('trace', []) if e.get('event') == 'rpc' and e.get('method') == 'pay']

def _resp(nat, k, epoch=None):
    out = [r for r in nat.get('responses', []) if r['k'] == k and (epoch is None or r['epoch'] == epoch)]
    return out[-1]['response'] if out else None

def required(script, deliver):
    p = script['config']['policy']
    return deliver + int(p['base']) + deliver * int(p['ppm']) // 1000000

def deliver_amount(script, k=None):
    inv = script['invoices'][0]
    if inv['amount'] is not None:
        return int(inv['amount'])
    for s in script['steps']:
        if s.get('op') == 'htlc' and s.get('tlv_amount') is not None and len(s['tlv_amount']) <= 16:
            return int(s['tlv_amount'] or '0', 16)
    return None

def judge(pid, v, script, nat):
    if nat.get('outcome') != 'ok':
        return False, 'native run failed: %s' % json.dumps(nat)[:300]
    kind = v.kind
    f = JUDGES.get(kind)
    if f is None:
        return False, 'no native judgement implemented for violation kind %s' % kind
    return f(v, script, nat)

def j_pay_budget(v, script, nat):
    pays = _pay_events(nat)
    if not pays:
        return False, 'no pay call was observed natively'
    amts = _amounts(script)
    for e in pays:
        held = sum(amts.get(k, 0) for (_ep, k) in e.get('held', []))
        deliver = deliver_amount(script)
        p = e['params']
        if deliver is None:
            return False, 'cannot determine the amount to deliver'
        if script['invoices'][0]['amount'] is None:
            if msat(p.get('amount_msat')) != deliver:
                return True, 'amount argument %s != declared %s' % (p.get('amount_msat'), deliver)
        elif p.get('amount_msat') is not None:
            return True, 'amount argument present for a fixed-amount invoice'
        if held < required(script, deliver):
            return True, 'pay issued while holding %d < required %d' % (held, required(script, deliver))
        if p.get('maxfee') is None or msat(p['maxfee']) > held - deliver:
            return True, 'maxfee %s > held %d - amount %d' % (p.get('maxfee'), held, deliver)
    return False, 'pay calls respected the budget natively: %s' % [(e['params'].get('maxfee'), e.get('held')) for e in pays]

def j_answered_while_paying(v, script, nat):
    tr = nat.get('trace', [])
    delivered = []
    for e in tr:
        if e.get('event') == 'htlc':
            delivered.append((e['epoch'], e['k']))
        if e.get('event') == 'rpc' and e.get('method') == 'pay':
            held = [tuple(x) for x in e.get('held', [])]
            gone = [d for d in delivered if d not in held]
            if gone:
                return True, 'htlcs %s answered before pay returned' % gone
    return False, 'all htlcs still held when pay returned'

JUDGES = {
    'pay-budget': j_pay_budget,
    'answered-while-paying': j_answered_while_paying,
}
