"""C06 — every htlc_accepted call gets exactly one response; no input panics or hangs the handler."""
from .. import sym
from ..harness import ctx, Report, finish
from ..sched import Violation
from ..scenario import InvoiceSpec, HtlcSpec, std_htlcs, MAX_MSAT
from ..monitors import NoPanicNoHang, Coverage
from . import scen_common
from .c13 import SymMetaScenario, one_htlc, EXTRA

PID = 'C06'

class ExactlyOne:
    """Each handler completes once with one response (no listener dropped, none answered twice)."""
    def after_step(self, m, sc, label, new):
        for ch in m.st.oneshots:
            if ch.sends > 1:
                raise Violation('answered-twice', {'channel': ch.label}, 'listener', 'double-send')

def cfg_symbolic(n, store='free_absent', **kw):
    H = sym.var('H')
    pc = []
    inv = InvoiceSpec(1, H, sym.var('inv_amount'))
    specs = std_htlcs(pc, n, H)
    cfg = dict(htlcs=specs, invoices=[inv], store_init=store, max_parts=1, pay_outcomes=('complete', 'failed'), pending_parts=1)
    cfg.update(kw)
    return cfg, pc

def cfg_concrete(amounts, store='free_absent', **kw):
    """Concrete money, symbolic nothing: used where the schedule / fault space is the subject."""
    H = sym.var('H')
    pc = []
    inv = InvoiceSpec(1, H, 1000000)
    specs = []
    for i, a in enumerate(amounts):
        specs.append(HtlcSpec(i, invoice=0, hash=H, amount=a, forward='amount', total=1006000, cltv_expiry=2000 + i, cltv_rel=1500))
    cfg = dict(htlcs=specs, invoices=[inv], store_init=store, max_parts=1, pay_outcomes=('complete', 'failed'), pending_parts=1,
               policy=(1000, 5000, 1008), cltv_delta=34, height=100)
    cfg.update(kw)
    return cfg, pc

def main(tier, seed, args):
    rep = Report(PID, tier, seed, 'model_checking')
    c = ctx('on')
    nmeta = 5 if tier == 'quick' else 9
    rep.bounds = {'htlcs': '2 symbolic / 3 concrete (extra HTLCs while paying)', 'metadata': 'every byte string of length 0..%d, plus every 10-byte string of the form type, 0xff, 8 length bytes' % nmeta,
                  'rpc_faults': '1 per run on any method (2 thorough), including inside wait_payment on the restart path',
                  'mpp_timeout': 'symbolic 1..2^32-1 s; restart attempt time symbolic (before or after now)',
                  'fairness': 'an RPC that is retried answers without error after at most the fault budget of consecutive errors',
                  'outside': 'JSON layer of on_htlc_accepted; panics inside library code summarised by contracts'}
    rep.assumptions = ['single HTLC amount <= money supply', 'node + tokio contracts', 'timers eventually fire (quiescent states have no armed timer)']
    rep.trusted = ['mirsym', 'z3', 'node model', 'tokio contracts']
    budget = 400 if tier == 'quick' else 3000
    mons = lambda *extra: [NoPanicNoHang(), ExactlyOne()] + list(extra)
    configs = []
    cfg, pc = cfg_symbolic(2)
    configs.append(('symbolic[2 htlcs]', cfg, pc, mons(Coverage(['pay', 'response:Resolve', 'response:Fail(2019)', 'response:Fail(201a)'])), {}))
    cfg, pc = cfg_concrete([1006000, 1000, 1000])
    configs.append(('extra htlcs while paying[3]', cfg, pc, mons(Coverage(['pay', 'response:Resolve'])), {}))
    faults = 1 if tier == 'quick' else 2
    allm = ('datastore', 'listdatastore', 'listsendpays', 'waitsendpay', 'get_info')
    cfg, pc = cfg_concrete([1006000], faults=faults, fault_methods=allm, fault_codes=((-1, 'Rpc'), (None, 'General')))
    configs.append(('rpc faults[1 htlc, free]', cfg, pc, mons(Coverage(['fault', 'response:Fail(2002)'])), {}))
    cfg, pc = cfg_concrete([1006000], store='pending', faults=faults, fault_methods=allm, fault_codes=((-1, 'Rpc'), (None, 'General')))
    configs.append(('rpc faults[1 htlc, restart]', cfg, pc, mons(Coverage(['fault'])), {}))
    # last clause: HTLCs of a set that never completes are answered no later than one MPP timeout after the stored
    # state was read -- first arrival (Free) and restart with an interrupted, dead attempt whose recorded time is
    # symbolic (before or after the current clock)
    from .c11 import cfg_partial, TimeoutMonitor, DeadOldParts
    cfg, pc = cfg_partial(2, False)
    configs.append(('never complete[2 htlcs, free]', cfg, pc, mons(TimeoutMonitor(False), Coverage(['timer', 'response:Fail(2019)'])), {}))
    cfg, pc = cfg_partial(1, True)
    configs.append(('never complete[1 htlc, restart]', cfg, pc, mons(DeadOldParts(), TimeoutMonitor(True), Coverage(['timer', 'response:Fail(2019)'])), {}))
    # "well-formed response": a `continue` that rewrites the payload still carries a valid TLV stream (C13's rewrite cases)
    from .c13 import build_cases
    for case in build_cases(tier):
        if 'rewrite' in case[0]:
            configs.append(('well-formed continue: ' + case[0],) + tuple(case[1:]))
    scen_common.run_configs(rep, PID, c, configs, budget)
    if not rep.violations:
        from .c20 import run_explorer
        H = sym.var('H')
        inv = InvoiceSpec(1, H, sym.var('inv_amount'))
        for n in list(range(0, nmeta + 1)) + ['wide']:
            pc = []
            wide = n == 'wide'
            n = 10 if wide else n
            bs = [sym.var('m%d' % i) for i in range(n)]
            pc += [sym.and_(sym.le(0, b), sym.le(b, 255)) for b in bs]
            if wide:
                # a record whose length uses the widest form (0xff + 8 bytes): the only way to declare a length > 2^32
                pc += [sym.lt(bs[0], 0xfd), sym.eq(bs[1], 0xff)]
            s = one_htlc(pc, invoice=None, extra_payload=[EXTRA[0], EXTRA[1], EXTRA[3]])
            s.raw_meta = bs
            s.raw_meta_pos = 1
            cfg = dict(htlcs=[s], invoices=[inv], store_init='free_absent')
            sc = SymMetaScenario(c, cfg, mons(), pc, bs)
            name = 'arbitrary metadata[%s]' % ('10 bytes: type, ff, 8 length bytes' if wide else '%d bytes' % n)
            ex = run_explorer(rep, c, sc, name, max_states=200000, time_budget=budget)
            scen_common.report(rep, PID, name, ex, sc)
            if rep.violations:
                break
    finish(rep, [c], './check C06 --tier ' + tier)

def replay_cex(path):
    return scen_common.replay_cex(PID, path)
