"""C16 — pay wrapper: success only with a real preimage, failure only when final."""
import json
from .. import sym, replay
from ..sym import T
from ..values import Adt, Ref, Seq, Cell, Opaque, unit
from ..harness import ctx, Report, finish, Inconclusive, save_cex, match_known
from ..sched import Explorer, Violation
from ..intrinsics import is_variant, some, none
from .. import lib_std, lib_bytes, lib_tokio, env_node
from ..env_node import NodeEnv, Part, hash_value, preimage_of, field
from . import common
from .c20 import arc, run_explorer
from .c15 import provider_value, parts_summary, script_from_log, native_violates, WaitEnv
from . import c15

PID = 'C16'
U64 = sym.INT_TYPES['u64']
U16 = sym.INT_TYPES['u16']

def timer_transitions(m):
    """Armed timers of the code under test (retry pauses) fire as environment steps; recorded for the replay script."""
    out = []
    for t in m.st.timers:
        if t.polled and not t.fired and not t.dropped:
            def fire(m, label=t.label):
                for tt in m.st.timers:
                    if tt.label == label:
                        tt.fired = True
                        m.event('timer_fired', label)
                        dur = [e[3] for e in m.st.events if e[0] == 'timer_created' and e[1] == label]
                        m.st.env.log.append(('timer', label, dur[-1] if dur else None))
                        m.st.sched.wake(tt.waiters)
            out.append(('fire ' + t.label, fire))
    return out

class PayHarness:
    max_polls = 80
    stop_on_first_violation = True
    def __init__(self, c, xpay, pre_parts, max_new_parts, outcomes, codes=(203, 204), faults=0, amount_some=True):
        self.c = c
        self.xpay = xpay
        self.pre_parts = pre_parts
        self.max_new = max_new_parts
        self.outcomes = outcomes
        self.codes = codes
        self.faults = faults
        self.amount_some = amount_some
    def init(self, m):
        H = sym.var('H')
        env = WaitEnv()
        env.wait_fail_codes = self.codes
        env.max_parts = self.max_new
        env.pay_outcomes = self.outcomes
        env.fault_budget = self.faults
        env.fault_methods = getattr(self, 'fault_methods', ('listsendpays', 'waitsendpay'))
        env.fault_codes = ((-1, 'Rpc'), (None, 'General'))
        m.st.env = env
        m.st.roots['H'] = H
        for i in range(self.pre_parts):
            p = Part(i, H, groupid=1, partid=i + 1)
            p.status = ('pending', 'complete', 'failed')[m.choose(3, 'part%d.initial' % i)]
            env.parts.append(p)
        retry = sym.var('retry_for')
        fee, delta, amt = sym.var('max_fee'), sym.var('max_delta'), sym.var('amount')
        m.pc.extend([sym.in_range(retry, U16), sym.in_range(fee, U64), sym.in_range(delta, U16), sym.in_range(amt, U64)])
        prov = provider_value(self.xpay, retry)
        bolt = Seq([], 'str', tag=sym.var('bolt11'))
        req = Adt('payment_provider::PaymentRequest', None,
                  {0: bolt, 1: hash_value(H), 2: some(amt) if self.amount_some else none(), 3: fee, 4: delta},
                  ['bolt11', 'payment_hash', 'amount_msat', 'max_fee_msat', 'max_cltv_delta'])
        body = self.c.body('<PayPaymentProvider as PaymentProvider>::pay')
        fut = m.call_body(body, [Ref(Cell(prov), 'v'), req])
        m.st.sched.new_task('pay', fut)
        m.st.roots.update({'checked': False, 'req_checked': False})
    def env_transitions(self, m):
        out = m.st.env.transitions(m)
        out.extend(timer_transitions(m))
        return out
    def after_step(self, m, label):
        st = m.st
        env = st.env
        t = st.sched.tasks[0]
        if t.status == 'panicked':
            raise Violation('pay-panicked', {'panic': t.panic}, 'pay', 'panic')
        if not st.roots['req_checked']:
            for cc in env.calls:
                if cc.method == 'pay' and cc.state != 'new':
                    st.roots['req_checked'] = True
                    self.check_request(m, cc.args)
        if t.status == 'done' and not st.roots['checked']:
            st.roots['checked'] = True
            res = t.result
            H = st.roots['H']
            anyc = [p for p in env.parts if p.status == 'complete']
            anyp = [p for p in env.parts if p.status == 'pending']
            log = [list(map(str, x)) for x in env.log]
            if is_variant(res, 'Ok'):
                pre = res.fields[0]
                tag = getattr(pre, 'tag', None)
                good = bool(anyc) and tag is not None and not m.feasible(sym.ne(tag, preimage_of(H)))
                if not good:
                    raise Violation('success-without-complete-part', {'parts': parts_summary(env), 'rpc_log': log}, 'pay.return[Ok]', 'no-complete-part')
            else:
                if anyc or anyp:
                    cause = 'rpc-fault-inside-wait' if env.faults_used else ('complete-part-missed' if anyc else 'pending-part-missed')
                    raise Violation('failure-while-part-live', {'parts': parts_summary(env), 'rpc_log': log, 'faults': env.faults_used}, 'pay.return[Err]', cause)
    def check_request(self, m, req):
        """The request forwarded to the node carries exactly the inputs / configuration."""
        amt = field(m, req, 'amount_msat')
        conds = []
        if self.amount_some:
            conds.append(is_variant(amt, 'Some') and sym.eq(amt.fields[0].fields[0], sym.var('amount')))
        else:
            conds.append(is_variant(amt, 'None'))
        mf = field(m, req, 'maxfee')
        conds.append(is_variant(mf, 'Some') and sym.eq(mf.fields[0].fields[0], sym.var('max_fee')))
        md = field(m, req, 'maxdelay')
        conds.append(is_variant(md, 'Some') and sym.eq(md.fields[0], sym.var('max_delta')))
        rf = field(m, req, 'retry_for')
        conds.append(is_variant(rf, 'Some') and sym.eq(rf.fields[0], sym.var('retry_for')))
        b = field(m, req, 'bolt11')
        conds.append(b.tag is not None and sym.eq(b.tag, sym.var('bolt11')))
        for name in ('partial_msat', 'maxfeepercent', 'exemptfee'):
            conds.append(is_variant(field(m, req, name), 'None'))
        bad = sym.not_(sym.and_(*conds))
        if m.feasible(bad):
            mdl = m.solver.model(m.pc, bad)
            raise Violation('pay-request-altered', {'model': {k: v for k, v in mdl.items() if '!' not in k},
                                                    'request': env_node._short(req)[:600]}, 'pay.request', 'fields')
    def on_quiescent(self, m):
        t = m.st.sched.tasks[0]
        if t.status != 'done':
            raise Violation('pay-stuck', {'status': t.status, 'events': [list(map(str, e)) for e in m.events[-10:]]}, 'pay', 'stuck')

def report(rep, name, ex, xpay, pid=None):
    pid = pid or PID
    for v, trail, m in ex.violations:
        env = m.st.env
        script = {'kind': 'pay', 'steps': script_from_log(env), 'final_parts': parts_summary(env), 'xpay': xpay}
        if v.kind == 'pay-request-altered':
            mdl = v.detail.get('model', {})
            script['request'] = {k: str(mdl.get(k, 0)) for k in ('amount', 'max_fee', 'max_delta', 'retry_for')}
        nat = replay.run('provider', script, timeout=120)
        if v.kind == 'pay-request-altered':
            reproduced = request_mismatch(nat, script)
        else:
            reproduced = native_violates(nat, script)
        cex = {'property': pid, 'harness': name, 'kind': v.kind, 'detail': v.detail, 'trail': trail.to_list(),
               'script': script, 'native': nat, 'replay_kind': 'provider', 'role': v.role, 'cause': v.cause}
        path = save_cex(pid, cex)
        if reproduced:
            k = match_known(pid, v.role, v.cause)
            if k:
                msg = '%s/%s %s' % (v.role, v.cause, k.get('text', ''))
                if msg not in rep.known:
                    rep.known.append(msg)
            else:
                rep.violations.append({'replay': path, 'role': v.role,
                                       'summary': '%s: %s parts=%s native=%s' % (name, v.kind, v.detail.get('parts'), nat.get('result'))})
        else:
            rep.inconclusive.append('%s: counterexample %s did not reproduce natively: %s (native: %s)' % (name, v.kind, path, json.dumps(nat)[:300]))

def request_mismatch(nat, script):
    r = script.get('request') or {}
    for ev in nat.get('rpc_log', []):
        if ev.get('event') == 'call' and ev.get('method') == 'pay':
            p = ev.get('params', {})
            exp = {'maxfee': int(r.get('max_fee', 1000)), 'maxdelay': int(r.get('max_delta', 100)), 'retry_for': int(r.get('retry_for', 60))}
            def norm(x):
                if isinstance(x, str) and x.endswith('msat'):
                    x = x[:-4]
                try:
                    return int(x)
                except (TypeError, ValueError):
                    return x
            for k, v in exp.items():
                if norm(p.get(k)) != v:
                    return True
            if p.get('bolt11') != 'lnbc1replay':
                return True
            return False
    return False

def main(tier, seed, args):
    rep = Report(PID, tier, seed, 'model_checking')
    c = ctx('on')
    outcomes = ('complete', 'pending', 'failed', 'failed_warning', 'failed_warning_empty', 'error:210', 'error:205', 'error:none')
    rep.bounds = {'pay_outcomes': list(outcomes), 'parts_created_by_pay': 1 if tier == 'quick' else 2,
                  'pre_existing_parts': 1, 'xpay': [False, True], 'faults': '0 (quick) / 1 RPC fault inside wait_payment (thorough)',
                  'outside': 'more parts; more than one RPC fault'}
    rep.assumptions = ['pay contracts of env_node.py: when pay returns it creates no further parts; failed without warning means no part pending or complete; complete means a part is complete',
                       'request values symbolic over their full ranges']
    rep.trusted = ['mirsym', 'z3', 'tokio/futures contracts', 'node model (pay, listsendpays, waitsendpay)']
    cfgs = []
    for xpay in (False, True):
        cfgs.append((xpay, 0, 1, True))
    cfgs.append((False, 1, 1, False))
    if tier == 'thorough':
        cfgs += [(False, 1, 2, True), (True, 1, 2, False)]
    for xpay, pre, new, amt in cfgs:
        name = 'pay[xpay=%s,pre=%d,new<=%d,amount=%s]' % (xpay, pre, new, 'Some' if amt else 'None')
        h = PayHarness(c, xpay, pre, new, outcomes, amount_some=amt)
        ex = run_explorer(rep, c, h, name, max_states=400000)
        report(rep, name, ex, xpay)
        if ex.violations:
            break
    if not rep.violations:
        # the pay command cannot even connect (RpcError::General) while a part of an earlier attempt exists
        h = PayHarness(c, False, 1, 0, ('error:210',), faults=1)
        h.fault_methods = ('pay',)
        name = 'pay[connect failure, 1 earlier part]'
        ex = run_explorer(rep, c, h, name, max_states=400000)
        report(rep, name, ex, False)
    if not rep.violations:
        h = PayHarness(c, False, 1, 1, ('error:210',) if tier == 'quick' else ('pending', 'failed_warning', 'error:210'), faults=1)
        name = 'pay[1 rpc fault inside wait_payment]'
        ex = run_explorer(rep, c, h, name, max_states=400000)
        report(rep, name, ex, False)
    finish(rep, [c], './check C16 --tier ' + tier)

def replay_cex(path, pid=None):
    cex = json.load(open(path))
    nat = replay.run('provider', cex['script'], timeout=120)
    print(json.dumps(nat, indent=1))
    bad = request_mismatch(nat, cex['script']) if cex.get('kind') == 'pay-request-altered' else native_violates(nat, cex['script'])
    if bad:
        print('VIOLATION property=%s replay=%s' % (pid or PID, path))
        return 1
    return 0
