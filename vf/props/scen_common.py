"""Reporting / native replay shared by the scenario-level properties."""
import json
from .. import sym, replay
from ..sym import T
from ..harness import save_cex, match_known
from ..scenario import Scenario

class ScenarioWithPc(Scenario):
    """Scenario whose symbolic inputs come with domain constraints prepared by the property."""
    def __init__(self, c, cfg, monitors, pc):
        Scenario.__init__(self, c, cfg, monitors)
        self.extra_pc = list(pc)
    def init(self, m):
        m.pc.extend(self.extra_pc)
        Scenario.init(self, m)

def native_script(m, sc, v, trail=None):
    """Translate a violating state into a native scenario script (see replay/src/scen_manager.rs)."""
    from . import scen_native
    return scen_native.script_from_state(m, sc, v, trail)

def report(rep, pid, name, ex, sc):
    for v, trail, m in ex.violations:
        try:
            script = native_script(m, sc, v, trail)
            nat = replay.run('manager', script, timeout=300)
            from . import scen_native
            reproduced, why = scen_native.judge(pid, v, script, nat)
        except Exception as e:      # replay machinery problem: never report as a violation
            script, nat, reproduced, why = None, {'error': repr(e)}, False, 'replay failed: %r' % (e,)
        cex = {'property': pid, 'harness': name, 'kind': v.kind, 'detail': v.detail, 'role': v.role, 'cause': v.cause,
               'trail': trail.to_list(), 'events': [list(map(str, e)) for e in m.events[-80:]],
               'script': script, 'native': nat, 'replay_kind': 'manager', 'judgement': why}
        path = save_cex(pid, cex)
        if reproduced:
            k = match_known(pid, v.role, v.cause)
            if k:
                msg = '%s/%s %s' % (v.role, v.cause, k.get('text', ''))
                if msg not in rep.known:
                    rep.known.append(msg)
            else:
                rep.violations.append({'replay': path, 'role': v.role,
                                       'summary': '%s: %s %s' % (name, v.kind, json.dumps(v.detail, default=str)[:400])})
        else:
            rep.inconclusive.append('%s: counterexample %s did not reproduce natively (%s): %s' % (name, v.kind, why, path))

def replay_cex(pid, path):
    from . import scen_native
    cex = json.load(open(path))
    nat = replay.run('manager', cex['script'], timeout=300)
    print(json.dumps(nat, indent=1)[:4000])
    class V:
        pass
    v = V()
    v.kind, v.detail, v.role, v.cause = cex['kind'], cex['detail'], cex.get('role'), cex.get('cause')
    ok, why = scen_native.judge(pid, v, cex['script'], nat)
    print(why)
    if ok:
        print('VIOLATION property=%s replay=%s' % (pid, path))
        return 1
    return 0
