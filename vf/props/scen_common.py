"""Reporting / native replay shared by the scenario-level properties."""
import json
from .. import sym, replay
from ..sym import T
from ..harness import save_cex, match_known
from ..scenario import Scenario

PROBABILISTIC = ('pay-with-conflicting-info', 'pay-after-rejection', 'different-resolutions')

class ScenarioWithPc(Scenario):
    """Scenario whose symbolic inputs come with domain constraints prepared by the property."""
    def __init__(self, c, cfg, monitors, pc):
        Scenario.__init__(self, c, cfg, monitors)
        self.extra_pc = list(pc)
    def init(self, m):
        m.pc.extend(self.extra_pc)
        Scenario.init(self, m)

def native_script(m, sc, v, trail=None):
    """Translate a violating state into a native scenario script (see replay/src/scen_manager.rs)."""
    from . import scen_native
    return scen_native.script_from_state(m, sc, v, trail)

def _simplicity(item):
    v, trail, m = item
    tl = trail.to_list()
    fires = sum(1 for t in tl if t['step'].startswith('fire '))
    return (fires, len(tl))

def report(rep, pid, name, ex, sc):
    """Several violating schedules may have been collected: the ones that are easiest to drive natively
    (no timer races, short) are tried first; the first natively reproduced one is reported."""
    if not ex.violations:
        return
    from . import scen_native
    tried = []
    for v, trail, m in sorted(ex.violations, key=_simplicity)[:10]:
        try:
            script = native_script(m, sc, v, trail)
            reproduced, why, nat = False, '', None
            for attempt in range(1 if v.kind not in PROBABILISTIC else 16):
                nat = replay.run('manager', script, timeout=300)
                reproduced, why = scen_native.judge(pid, v, script, nat)
                if reproduced:
                    why += ' (native attempt %d)' % (attempt + 1)
                    break
        except Exception as e:      # replay machinery problem: never report as a violation
            script, nat, reproduced, why = None, {'error': repr(e)}, False, 'replay failed: %r' % (e,)
        cex = {'property': pid, 'harness': name, 'kind': v.kind, 'detail': v.detail, 'role': v.role, 'cause': v.cause,
               'trail': trail.to_list(), 'events': [list(map(str, e)) for e in m.events[-80:]],
               'script': script, 'native': nat, 'replay_kind': 'manager', 'judgement': why}
        path = save_cex(pid, cex)
        tried.append((v, path, why))
        if reproduced:
            k = match_known(pid, v.role, v.cause)
            if k:
                msg = '%s/%s %s' % (v.role, v.cause, k.get('text', ''))
                if msg not in rep.known:
                    rep.known.append(msg)
                continue
            rep.violations.append({'replay': path, 'role': v.role,
                                   'summary': '%s: %s %s | native: %s' % (name, v.kind, json.dumps(v.detail, default=str)[:300], why)})
            return
    if not rep.known or any(not match_known(pid, v.role, v.cause) for v, p, w in tried):
        unexplained = [(v, p, w) for v, p, w in tried if not match_known(pid, v.role, v.cause)]
        if unexplained:
            v, path, why = unexplained[0]
            rep.inconclusive.append('%s: %d counterexample(s) of kind %s found symbolically, none reproduced natively (%s): %s'
                                    % (name, len(unexplained), v.kind, why, path))

def replay_cex(pid, path):
    from . import scen_native
    cex = json.load(open(path))
    nat = replay.run('manager', cex['script'], timeout=300)
    print(json.dumps(nat, indent=1)[:4000])
    class V:
        pass
    v = V()
    v.kind, v.detail, v.role, v.cause = cex['kind'], cex['detail'], cex.get('role'), cex.get('cause')
    ok, why = scen_native.judge(pid, v, cex['script'], nat)
    print(why)
    if ok:
        print('VIOLATION property=%s replay=%s' % (pid, path))
        return 1
    return 0

def run_configs(rep, pid, c, configs, default_budget=100):
    """configs: [(name, cfg, pc, monitors, kwargs)].  Stops at the first config with a reportable result."""
    from .c20 import run_explorer
    for name, cfg, pc, monitors, kw in configs:
        sc = ScenarioWithPc(c, cfg, monitors, pc)
        for k, v in kw.pop('scenario_attrs', {}).items():
            setattr(sc, k, v)
        kw.setdefault('max_states', 300000)
        kw.setdefault('max_depth', 800)
        kw.setdefault('time_budget', default_budget)
        ex = run_explorer(rep, c, sc, name, **kw)
        report(rep, pid, name, ex, sc)
        for mon in monitors:
            if hasattr(mon, 'missing') and not ex.violations:
                miss = mon.missing()
                rep.parts[name]['covered'] = sorted(mon.seen)
                if miss:
                    rep.inconclusive.append('%s: vacuity guard: never reached %s' % (name, miss))
        if rep.violations:
            break

def be_bytes(v, n=8):
    return list(int(v).to_bytes(n, 'big'))
