"""C02 — incoming HTLCs are never failed back while the outgoing payment can succeed."""
from ..harness import ctx, Report, finish
from ..monitors import NoFailWhileLive, Coverage
from . import scen_common, scen_payflow

PID = 'C02'

def main(tier, seed, args):
    rep = Report(PID, tier, seed, 'model_checking')
    c = ctx('on')
    rep.bounds = {'htlc_sets': '1 set; 2 consecutive sets', 'parts': '1 per pay command + 1 earlier (restart configuration: 2 earlier parts, codes 203/204)', 'crash': 1,
                  'pay_outcomes': 'complete, pending, failed, failed with a non-empty / empty partial-completion warning, RPC error 210, RPC error without a node error code',
                  'stored_history': ['absent', 'Pending (part pending/complete/failed)', 'Succeeded'],
                  'faults': '1 RPC fault (Rpc error or transport error) on listsendpays / waitsendpay / listdatastore / datastore',
                  'outside': 'more sets/parts/crashes/faults'}
    rep.assumptions = ['node model (env_node.py)', 'an outgoing attempt exists once a part exists or a pay command was issued']
    rep.trusted = ['mirsym', 'z3', 'node model', 'tokio contracts']
    budget = 400 if tier == 'quick' else 3000
    configs = []
    for name, cfg, pc, kw in scen_payflow.standard_configs(tier, two_sets=('paid', 'failed'), crash=True, faults=1, fault_methods=('listsendpays', 'waitsendpay', 'listdatastore', 'datastore')):
        configs.append((name, cfg, pc, [NoFailWhileLive(), Coverage(['response:Resolve'] if ('succeeded' in name or 'first one paid' in name) else ['response:Fail'])], kw))
    scen_common.run_configs(rep, PID, c, configs, budget)
    finish(rep, [c], './check C02 --tier ' + tier)

def replay_cex(path):
    return scen_common.replay_cex(PID, path)
