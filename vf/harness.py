"""Shared harness infrastructure: context, reports, evidence, exit protocol."""
import os
import sys
import json
import time
import hashlib
import subprocess
from . import sym, dump
from .index import ProgramIndex, build_registry
from .machine import Machine, Chooser, explore, Unsupported, BoundExceeded, Panic, Infeasible
from .intrinsics import I

VERIF = dump.VERIF
OUT = os.path.join(VERIF, 'out')
EVID = os.path.join(VERIF, 'evidence')

class Inconclusive(Exception):
    pass

_ctx_cache = {}

class Ctx:
    """Everything derived from /repo's current tree for one overflow mode."""
    def __init__(self, overflow='on', timeout_ms=20000):
        self.overflow = overflow
        try:
            text, path, secs, cached = dump.get_mir(overflow)
        except dump.BuildError as e:
            raise Inconclusive('build: ' + str(e)[-1500:])
        self.mir_path = path
        self.dump_s = secs
        self.reg = build_registry()
        self.prog = ProgramIndex(text, self.reg)
        self.solver = sym.Solver(timeout_ms)
        self.intr = I
    def machine(self, chooser=None):
        m = Machine(self.prog, self.solver, chooser or Chooser(), self.reg, self.intr)
        return m
    def body(self, key):
        b = self.prog.resolve_fn(key)
        if b is None:
            b = self.prog.prog.get(key)
        if b is None and '::' in key and not key.startswith('<'):
            ty, meth = key.rsplit('::', 1)
            hits = [bb for k, bb in self.prog.keys.items() if k.startswith('<%s as ' % ty) and k.endswith('>::' + meth)]
            if len(hits) == 1:
                b = hits[0]
        if b is None:
            raise Inconclusive('body not found in MIR dump: ' + key)
        return b

def ctx(overflow='on', timeout_ms=20000):
    k = (overflow, dump.repo_hash())
    if k not in _ctx_cache:
        _ctx_cache[k] = Ctx(overflow, timeout_ms)
    return _ctx_cache[k]

class Report:
    def __init__(self, pid, tier, seed, level):
        self.pid = pid
        self.tier = tier
        self.seed = seed
        self.level = level
        self.t0 = time.time()
        self.paths = 0
        self.outcomes = {}
        self.obligations = 0
        self.discharged = 0
        self.samples = []
        self.violations = []       # dicts
        self.known = []
        self.inconclusive = []
        self.bodies = {}           # name -> sha
        self.intrinsics = set()
        self.bounds = {}
        self.assumptions = []
        self.trusted = []
        self.states = 0
        self.transitions = 0
        self.validated = 0
        self.nontrivial = set()
        self.evaluations = 0
        self.solver_stats = []
        self.parts = {}            # sub-harness name -> summary dict
        self.extra = {}
    def note_machine(self, m):
        for n in m.bodies_run:
            b = m.prog.prog.get(n)
            if b is not None:
                self.bodies[n] = b.sha
        self.intrinsics |= m.intrinsics_hit
    def sample(self, s, cap=8):
        if len(self.samples) < cap:
            self.samples.append(s)
    def oblige(self, ok):
        self.obligations += 1
        if ok:
            self.discharged += 1

def solver_totals(ctxs):
    q = h = 0
    t = 0.0
    for c in ctxs:
        q += c.solver.stats.queries
        h += c.solver.stats.cache_hits
        t += c.solver.stats.time
    return {'queries': q, 'cache_hits': h, 'solver_s': round(t, 3)}

def write_evidence(rep, ctxs, checker_cmd):
    os.makedirs(EVID, exist_ok=True)
    cov = {
        'evaluations': max(rep.evaluations, rep.paths),
        'distinct_nontrivial': len(rep.nontrivial),
        'rule': rep.extra.get('rule', 'one evaluation = one symbolic execution path (a set of inputs/schedules '
                              'decided together by the solver); non-trivial = distinct (harness, outcome, decision '
                              'vector) whose property assertion was evaluated with a satisfiable antecedent'),
        'samples': rep.samples or [{'note': 'no paths'}],
        'exhaustive': not rep.inconclusive,
        'paths': rep.paths,
        'outcomes': rep.outcomes,
        'functions_encoded': rep.bodies,
        'intrinsics_hit': sorted(rep.intrinsics),
        'bounds': rep.bounds,
        'solver': solver_totals(ctxs),
        'parts': rep.parts,
        'mir_dump': [os.path.basename(c.mir_path) for c in ctxs],
        'repo_tree_hash': dump.repo_hash(),
        'known_findings_reported': rep.known,
        'inconclusive': rep.inconclusive,
    }
    if rep.level == 'proof':
        cov.update({'obligations': rep.obligations, 'discharged': rep.discharged,
                    'checker_cmd': checker_cmd, 'trusted_base': rep.trusted})
    elif rep.level == 'model_checking':
        cov.update({'states': max(rep.states, rep.paths, 1), 'transitions': max(rep.transitions, rep.paths, 1),
                    'traces_validated_against_impl': rep.validated,
                    'obligations': rep.obligations, 'discharged': rep.discharged,
                    'checker_cmd': checker_cmd, 'trusted_base': rep.trusted})
    cov.update({k: v for k, v in rep.extra.items() if k != 'rule'})
    ev = {
        'property_id': rep.pid,
        'tier': rep.tier,
        'seed': rep.seed,
        'level': rep.level,
        'coverage': cov,
        'assumptions': rep.assumptions,
        'wall_s': round(time.time() - rep.t0, 3),
        'violations': len(rep.violations),
    }
    path = os.path.join(EVID, rep.pid + '.json')
    tmp = path + '.tmp'
    with open(tmp, 'w') as f:
        json.dump(ev, f, indent=1, default=str)
    os.replace(tmp, path)
    return path

# ----------------------------------------------------------------------------
# known findings
# ----------------------------------------------------------------------------
def load_known():
    p = os.path.join(VERIF, 'known_findings.json')
    try:
        with open(p) as f:
            return json.load(f)
    except OSError:
        return {'findings': [], 'fixed': []}

def match_known(pid, role, cause):
    for k in load_known().get('findings', []):
        if k.get('property') == pid and k.get('role') == role and k.get('cause') == cause:
            return k
    return None

def save_cex(pid, cex):
    d = os.path.join(OUT, pid)
    os.makedirs(d, exist_ok=True)
    n = len([x for x in os.listdir(d) if x.startswith('cex-')])
    path = os.path.join(d, 'cex-%d.json' % n)
    with open(path, 'w') as f:
        json.dump(cex, f, indent=1, default=str)
    return path

def finish(rep, ctxs, checker_cmd):
    """Write evidence and terminate with the exit protocol."""
    path = write_evidence(rep, ctxs, checker_cmd)
    for k in rep.known:
        print('KNOWN-FINDING: property=%s %s' % (rep.pid, k))
    code = 0
    for v in rep.violations:
        print('VIOLATION property=%s replay=%s' % (rep.pid, v.get('replay', v.get('path', '?'))))
        if v.get('summary'):
            print('  ' + v['summary'])
        code = 1
    if code == 0 and rep.inconclusive:
        for r in rep.inconclusive[:10]:
            print('INCONCLUSIVE property=%s reason=%s' % (rep.pid, r))
        code = 2
    s = solver_totals(ctxs)
    print('%s %s: paths=%d obligations=%d/%d queries=%d solver=%.2fs wall=%.1fs evidence=%s -> %s' % (
        rep.pid, rep.tier, rep.paths, rep.discharged, rep.obligations, s['queries'], s['solver_s'],
        time.time() - rep.t0, os.path.relpath(path, VERIF), {0: 'PASS', 1: 'VIOLATION', 2: 'INCONCLUSIVE'}[code]))
    sys.stdout.flush()
    sys.exit(code)
