//! Native replay of solver models against the *unmodified* sources of /repo.
//! Every module is included by path; nothing is copied.  One sub-command per
//! observation kind; input is a JSON file, output is one JSON line on stdout.
#![allow(dead_code, unused_imports, unused_variables, clippy::all)]
use anyhow::Error;
use std::panic::{catch_unwind, AssertUnwindSafe};

#[path = "/repo/src/block_watcher.rs"]
mod block_watcher;
#[path = "/repo/src/cln_plugin/mod.rs"]
mod cln_plugin;
#[path = "/repo/src/email.rs"]
mod email;
#[path = "/repo/src/htlc_manager.rs"]
mod htlc_manager;
#[path = "/repo/src/messages.rs"]
mod messages;
#[path = "/repo/src/payment_provider.rs"]
mod payment_provider;
#[path = "/repo/src/plugin.rs"]
mod plugin;
#[path = "/repo/src/rpc.rs"]
mod rpc;
#[path = "/repo/src/store.rs"]
mod store;
#[path = "/repo/src/tlv.rs"]
mod tlv;

/// the wire codec is a private module of cln_plugin: include it (and what it needs) once more, directly
mod wire {
    #[path = "/repo/src/cln_plugin/options.rs"]
    pub mod options;
    #[path = "/repo/src/cln_plugin/messages.rs"]
    pub mod messages;
    #[path = "/repo/src/cln_plugin/codec.rs"]
    pub mod codec;
}

mod kernels;
mod fakenode;
mod scen_height;
mod scen_provider;
mod scen_manager;

use serde_json::{json, Value};

pub static PANICS: std::sync::Mutex<Vec<String>> = std::sync::Mutex::new(Vec::new());

fn main() {
    let args: Vec<String> = std::env::args().collect();
    if args.len() < 3 {
        eprintln!("usage: replay <kind> <file.json>");
        std::process::exit(64);
    }
    let kind = args[1].as_str();
    let text = std::fs::read_to_string(&args[2]).expect("read input");
    let input: Value = serde_json::from_str(&text).expect("parse input");
    // silence the default panic message; panics are observations here
    std::panic::set_hook(Box::new(|info| {
        let msg = if let Some(s) = info.payload().downcast_ref::<&str>() {
            s.to_string()
        } else if let Some(s) = info.payload().downcast_ref::<String>() {
            s.clone()
        } else {
            "?".to_string()
        };
        let loc = info.location().map(|l| format!("{}:{}", l.file(), l.line())).unwrap_or_default();
        PANICS.lock().unwrap().push(format!("{} @ {}", msg, loc));
    }));
    let out = match kind {
        "batch" => {
            // {"cases": [{"kind": .., "input": ..}, ..]}
            let mut outs = vec![];
            for c in input["cases"].as_array().expect("cases") {
                outs.push(kernels::run(c["kind"].as_str().unwrap(), &c["input"]));
            }
            json!({ "results": outs })
        }
        "height" => scen_height::run_height(&input),
        "manager" => {
            let mut v = match catch_unwind(AssertUnwindSafe(|| scen_manager::run(&input))) {
                Ok(v) => v,
                Err(_) => json!({"outcome": "driver-panic"}),
            };
            v["task_panics"] = json!(PANICS.lock().unwrap().clone());
            v
        }
        "codec" => kernels::run_codec(&input),
        "provider" => scen_provider::run(&input),
        "poll_loop" => scen_height::run_poll_loop(&input),
        k => kernels::run(k, &input),
    };
    println!("{}", out);
}
