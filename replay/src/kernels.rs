//! Kernel-level observations: pure functions of their inputs.
use crate::messages::{HtlcFailReason, TrampolineRoutingPolicy};
use crate::tlv::{FromBytes, ProtoBuf, ProtoBufMut, SerializedTlvStream, TlvEntry, ToBytes};
use serde_json::{json, Value};
use std::panic::{catch_unwind, AssertUnwindSafe};

/// `get_compact_size` returned a bare u64 before the truncation fix and a Result after it; the
/// replay crate must build against either (and against mutated trees).
trait CsOut {
    fn norm(self) -> Result<u64, String>;
}
impl CsOut for u64 {
    fn norm(self) -> Result<u64, String> {
        Ok(self)
    }
}
impl CsOut for Result<u64, anyhow::Error> {
    fn norm(self) -> Result<u64, String> {
        self.map_err(|e| e.to_string())
    }
}

fn u(v: &Value) -> u64 {
    match v {
        Value::String(s) => s.parse().expect("u64 string"),
        _ => v.as_u64().expect("u64"),
    }
}

fn bytes_of(v: &Value) -> Vec<u8> {
    hex::decode(v.as_str().expect("hex string")).expect("hex")
}

fn guarded<F: FnOnce() -> Value>(f: F) -> Value {
    match catch_unwind(AssertUnwindSafe(f)) {
        Ok(v) => v,
        Err(e) => {
            let msg = if let Some(s) = e.downcast_ref::<&str>() {
                s.to_string()
            } else if let Some(s) = e.downcast_ref::<String>() {
                s.clone()
            } else {
                "?".to_string()
            };
            json!({"outcome": "panic", "message": msg})
        }
    }
}

fn stream_json(s: &SerializedTlvStream) -> Value {
    // entries are private; observe through to_bytes + from_bytes-independent walk of get()
    let bytes = SerializedTlvStream::to_bytes(s.clone());
    json!({"reencoded": hex::encode(bytes), "debug": format!("{:?}", s)})
}

pub fn run(kind: &str, input: &Value) -> Value {
    match kind {
        "fee" => guarded(|| {
            let p = TrampolineRoutingPolicy {
                fee_base_msat: u(&input["base"]) as u32,
                fee_proportional_millionths: u(&input["ppm"]) as u32,
                cltv_expiry_delta: 0,
            };
            let r = p.fee_sufficient(u(&input["total"]), u(&input["amount"]));
            json!({"outcome": "ok", "value": r})
        }),
        "encode" => guarded(|| {
            let which = input["reason"].as_str().unwrap();
            let r = match which {
                "node" => HtlcFailReason::TemporaryNodeFailure,
                "trampoline" => HtlcFailReason::TemporaryTrampolineFailure,
                _ => HtlcFailReason::TrampolineFeeOrExpiryInsufficient(TrampolineRoutingPolicy {
                    fee_base_msat: u(&input["base"]) as u32,
                    fee_proportional_millionths: u(&input["ppm"]) as u32,
                    cltv_expiry_delta: u(&input["delta"]) as u16,
                }),
            };
            json!({"outcome": "ok", "value": hex::encode(r.encode())})
        }),
        "from_bytes" => guarded(|| {
            let b = bytes_of(&input["bytes"]);
            match SerializedTlvStream::from_bytes(b) {
                Ok(s) => {
                    let mut o = stream_json(&s);
                    o["outcome"] = json!("ok");
                    o
                }
                Err(e) => json!({"outcome": "err", "message": e.to_string()}),
            }
        }),
        "try_from" => guarded(|| {
            let b = bytes_of(&input["bytes"]);
            match SerializedTlvStream::try_from(b) {
                Ok(s) => {
                    let mut o = stream_json(&s);
                    o["outcome"] = json!("ok");
                    o
                }
                Err(e) => json!({"outcome": "err", "message": e.to_string()}),
            }
        }),
        "to_bytes" => guarded(|| {
            let mut entries = vec![];
            for e in input["entries"].as_array().unwrap() {
                entries.push(TlvEntry { typ: u(&e["typ"]), value: bytes_of(&e["value"]) });
            }
            let s: SerializedTlvStream = entries.into();
            json!({"outcome": "ok", "value": hex::encode(SerializedTlvStream::to_bytes(s))})
        }),
        "get_compact_size" => guarded(|| {
            let b = bytes_of(&input["bytes"]);
            let mut s: &[u8] = &b[..];
            match s.get_compact_size().norm() {
                Ok(v) => json!({"outcome": "ok", "value": v.to_string(), "remaining": s.len()}),
                Err(e) => json!({"outcome": "err", "message": e}),
            }
        }),
        "put_compact_size" => guarded(|| {
            let mut b = bytes::BytesMut::new();
            b.put_compact_size(u(&input["value"]));
            json!({"outcome": "ok", "value": hex::encode(&b[..])})
        }),
        "get_tu64" => guarded(|| {
            let b = bytes_of(&input["bytes"]);
            let mut bb: bytes::Bytes = b.into();
            match bb.get_tu64() {
                Ok(v) => json!({"outcome": "ok", "value": v.to_string(), "remaining": bb.len()}),
                Err(e) => json!({"outcome": "err", "message": e.to_string()}),
            }
        }),
        _ => json!({"outcome": "unknown-kind", "kind": kind}),
    }
}

/// Drive the real MultiLineCodec the way FramedRead does: append a chunk, decode until None.
pub fn run_codec(input: &Value) -> Value {
    use crate::wire::codec::MultiLineCodec;
    use tokio_util::codec::Decoder;
    guarded(|| {
        let data = bytes_of(&input["stream"]);
        let mut cuts: Vec<usize> = input["cuts"].as_array().map(|a| a.iter().map(|x| x.as_u64().unwrap() as usize).collect()).unwrap_or_default();
        cuts.insert(0, 0);
        cuts.push(data.len());
        let mut codec = MultiLineCodec::default();
        let mut buf = bytes::BytesMut::new();
        let mut frames = vec![];
        let mut error = false;
        'outer: for w in cuts.windows(2) {
            buf.extend_from_slice(&data[w[0]..w[1]]);
            loop {
                match codec.decode(&mut buf) {
                    Ok(Some(s)) => frames.push(hex::encode(s.as_bytes())),
                    Ok(None) => break,
                    Err(_) => {
                        error = true;
                        break 'outer;
                    }
                }
            }
        }
        json!({"outcome": "ok", "frames": frames, "left": hex::encode(&buf[..]), "error": error})
    })
}
