//! Native scenarios for PayPaymentProvider (C15, C16): the real provider over the real Rpc against
//! the fake node, answers given in the order of the counterexample's RPC log.
use crate::fakenode::{settle, wait_for_call, wait_for_call_where, FakeNode};
use crate::payment_provider::{PayPaymentProvider, PaymentProvider, PaymentRequest};
use crate::rpc::Rpc;
use secp256k1::hashes::{sha256, Hash};
use serde_json::{json, Value};
use std::sync::Arc;
use std::time::Duration;

pub fn preimage() -> [u8; 32] {
    [7u8; 32]
}

pub fn payment_hash() -> sha256::Hash {
    sha256::Hash::hash(&preimage())
}

fn sendpay_entry(p: &Value) -> Value {
    let id = p["id"].as_u64().unwrap();
    let status = p["status"].as_str().unwrap();
    let groupid = p["groupid"].as_u64().unwrap_or(1);
    let partid = p["partid"].as_u64().unwrap_or(id + 1);
    let mut v = json!({
        "id": id, "groupid": groupid, "partid": partid, "payment_hash": payment_hash().to_string(),
        "status": status, "created_at": 0, "amount_sent_msat": 0
    });
    if status == "complete" {
        v["payment_preimage"] = json!(hex::encode(preimage()));
    }
    v
}

pub fn answer_for(step: &Value) -> Value {
    if let Some(code) = step.get("fault") {
        if code.is_null() {
            return json!({"drop": true});
        }
        return json!({"error": {"code": code, "message": "injected"}});
    }
    match step["method"].as_str().unwrap_or("") {
        "listsendpays" => {
            let parts: Vec<Value> = step["parts"].as_array().cloned().unwrap_or_default().iter()
                .map(sendpay_entry).collect();
            json!({"result": {"payments": parts}})
        }
        "waitsendpay" => {
            if step["complete"].as_bool().unwrap_or(false) {
                let id = step["part"].as_u64().unwrap_or(0);
                let groupid = step["groupid"].as_u64().unwrap_or(1);
                let partid = step["partid"].as_u64().unwrap_or(id + 1);
                json!({"result": {"id": id, "groupid": groupid, "partid": partid, "payment_hash": payment_hash().to_string(),
                    "status": "complete", "created_at": 0, "amount_sent_msat": 0, "payment_preimage": hex::encode(preimage())}})
            } else if step["code"].is_string() {
                json!({"drop": true})
            } else {
                json!({"error": {"code": step["code"], "message": "part failed"}})
            }
        }
        "pay" => {
            let oc = step["outcome"].as_str().unwrap_or("failed");
            if oc == "error:none" {
                return json!({"error": {"message": "no response from lightningd"}});
            }
            if oc.starts_with("error") {
                let code: i64 = oc.split(':').nth(1).and_then(|x| x.parse().ok()).unwrap_or(210);
                return json!({"error": {"code": code, "message": "pay failed"}});
            }
            let status = match oc { "complete" => "complete", "pending" => "pending", _ => "failed" };
            let pre = if oc == "complete" { hex::encode(preimage()) } else { hex::encode([0u8; 32]) };
            let mut r = json!({"payment_preimage": pre, "payment_hash": payment_hash().to_string(), "created_at": 0.0,
                "parts": 1, "amount_msat": 0, "amount_sent_msat": 0, "status": status});
            if oc == "failed_warning" {
                r["warning_partial_completion"] = json!("partial");
            } else if oc == "failed_warning_empty" {
                r["warning_partial_completion"] = json!("");
            }
            json!({"result": r})
        }
        _ => json!({"error": {"code": -32601, "message": "unknown"}}),
    }
}

fn rt() -> tokio::runtime::Runtime {
    tokio::runtime::Builder::new_current_thread().enable_all().start_paused(true).build().unwrap()
}

/// {"kind": "wait_payment" | "pay", "steps": [...], "xpay": bool}
pub fn run(input: &Value) -> Value {
    rt().block_on(async {
        let node = FakeNode::start("prov");
        let rpc = Arc::new(Rpc::new(node.path.clone()));
        let provider = PayPaymentProvider::new(rpc, Duration::from_secs(60), input["xpay"].as_bool().unwrap_or(false));
        let kind = input["kind"].as_str().unwrap_or("wait_payment").to_string();
        let rq = input["request"].clone();
        let num = |v: &Value, d: u64| -> u64 { v.as_str().and_then(|s| s.parse().ok()).or(v.as_u64()).unwrap_or(d) };
        let (fee, delta, retry) = (num(&rq["max_fee"], 1000), num(&rq["max_delta"], 100), num(&rq["retry_for"], 60));
        let provider = if rq.is_object() {
            let rpc = Arc::new(Rpc::new(node.path.clone()));
            PayPaymentProvider::new(rpc, Duration::from_secs(retry), input["xpay"].as_bool().unwrap_or(false))
        } else { provider };
        let task = tokio::spawn(async move {
            if kind == "pay" {
                provider.pay(PaymentRequest {
                    bolt11: "lnbc1replay".to_string(),
                    payment_hash: payment_hash(),
                    amount_msat: None,
                    max_fee_msat: fee,
                    max_cltv_delta: delta as u16,
                }).await.map(Some)
            } else {
                provider.wait_payment(payment_hash()).await
            }
        });
        let mut notes = vec![];
        for step in input["steps"].as_array().cloned().unwrap_or_default() {
            if let Some(ms) = step["advance_ms"].as_u64() {
                // a timer of the code under test fires: move the paused clock
                for _ in 0..5 { settle().await; std::thread::sleep(Duration::from_micros(200)); }
                tokio::time::advance(Duration::from_millis(ms)).await;
                for _ in 0..5 { settle().await; std::thread::sleep(Duration::from_micros(200)); }
                continue;
            }
            let method = match step["method"].as_str() {
                Some(m) => m.to_string(),
                None => continue,
            };
            let want = if method == "listsendpays" && step["status"].is_string() {
                json!({"status": step["status"]})
            } else if method == "waitsendpay" && step["partid"].is_u64() {
                // several waits may be outstanding: answer the one for this part
                json!({"partid": step["partid"], "groupid": step["groupid"]})
            } else { Value::Null };
            match wait_for_call_where(&node, &method, &want, 400).await {
                Some(c) => node.answer(c, answer_for(&step)).await,
                None => notes.push(format!("scripted answer for {} was never requested", method)),
            }
            for _ in 0..5 { settle().await; std::thread::sleep(Duration::from_micros(200)); }
        }
        let mut done = false;
        for _ in 0..200 {
            if task.is_finished() { done = true; break; }
            settle().await;
            std::thread::sleep(Duration::from_micros(200));
        }
        if !done {
            return json!({"outcome": "ok", "result": "blocked", "pending_calls": node.pending_methods(), "notes": notes, "rpc_log": node.log()});
        }
        match task.await {
            Err(e) => json!({"outcome": "panic", "message": e.to_string(), "rpc_log": node.log()}),
            Ok(Ok(Some(p))) => json!({"outcome": "ok", "result": "some", "preimage_matches": p == preimage().to_vec(), "notes": notes, "rpc_log": node.log()}),
            Ok(Ok(None)) => json!({"outcome": "ok", "result": "none", "notes": notes, "rpc_log": node.log()}),
            Ok(Err(e)) => json!({"outcome": "ok", "result": "err", "error": e.to_string(), "notes": notes, "rpc_log": node.log()}),
        }
    })
}
