//! Native full-stack scenarios: the real HtlcManager + ClnDatastore + PayPaymentProvider<Rpc> +
//! BlockWatcher over the fake lightning-rpc socket, driven by a script of environment events.
//! The node simulator implements the same contracts as the symbolic node model (datastore modes and
//! generations, sendpay parts, pay outcomes); the script only carries *events and choices*.
use crate::block_watcher::BlockWatcher;
use crate::email::EmailNotificationService;
use crate::fakenode::{settle, FakeNode, PendingCall};
use crate::htlc_manager::{HtlcManager, HtlcManagerParams};
use crate::messages::{BlockAdded, Htlc, HtlcAcceptedRequest, HtlcAcceptedResponse, Onion, TrampolineRoutingPolicy};
use crate::payment_provider::PayPaymentProvider;
use crate::rpc::Rpc;
use crate::scen_height::{getinfo, NODE_ID};
use crate::store::ClnDatastore;
use crate::tlv::{SerializedTlvStream, TlvEntry, ToBytes};
use lightning_invoice::{Currency, InvoiceBuilder, PaymentSecret, RouteHint, RouteHintHop, RoutingFees};
use secp256k1::hashes::{sha256, Hash};
use secp256k1::{PublicKey, Secp256k1, SecretKey};
use serde_json::{json, Value};
use std::collections::BTreeMap;
use std::sync::{Arc, Mutex};
use std::time::{Duration, SystemTime, UNIX_EPOCH};

type Manager = HtlcManager<BlockWatcher, EmailNotificationService, PayPaymentProvider<Rpc>, ClnDatastore>;

fn num(v: &Value, d: u64) -> u64 {
    v.as_str().and_then(|s| s.parse().ok()).or(v.as_u64()).unwrap_or(d)
}

fn inum(v: &Value, d: i64) -> i64 {
    v.as_str().and_then(|s| s.parse().ok()).or(v.as_i64()).unwrap_or(d)
}

pub fn preimage_of(inv: u64) -> [u8; 32] {
    [(inv as u8).wrapping_add(1); 32]
}

pub fn hash_of(inv: u64) -> sha256::Hash {
    sha256::Hash::hash(&preimage_of(inv))
}

fn other_hash() -> sha256::Hash {
    sha256::Hash::hash(&[0xEEu8; 32])
}

fn local_secret() -> SecretKey {
    // the secret key whose public key is NODE_ID is not needed: getinfo simply reports NODE_ID
    SecretKey::from_slice(&[0x11u8; 32]).unwrap()
}

fn payee_secret(inv: u64) -> SecretKey {
    SecretKey::from_slice(&[(0x20 + inv as u8); 32]).unwrap()
}

/// {"ident": n, "amount": "123"|null, "sig_ok": bool, "self_hint": bool, "hash_of": m (default n)}
pub fn invoice_string(spec: &Value) -> String {
    let ident = spec["ident"].as_u64().unwrap_or(1);
    let hash_ident = spec["hash_of"].as_u64().unwrap_or(ident);
    let mut b = InvoiceBuilder::new(Currency::Bitcoin)
        .description(format!("replay invoice {}", ident))
        .payment_hash(hash_of(hash_ident))
        .payment_secret(PaymentSecret([42u8; 32]))
        .timestamp(SystemTime::UNIX_EPOCH + Duration::from_secs(1_700_000_000))
        .min_final_cltv_expiry_delta(144);
    if !spec["amount"].is_null() {
        b = b.amount_milli_satoshis(num(&spec["amount"], 0));
    }
    let other_node = PublicKey::from_secret_key(&Secp256k1::new(), &SecretKey::from_slice(&[0x77u8; 32]).unwrap());
    if let Some(hints) = spec["hints"].as_array() {
        let local: PublicKey = NODE_ID.parse().unwrap();
        for h in hints {
            let hops: Vec<RouteHintHop> = h.as_array().cloned().unwrap_or_default().iter().enumerate().map(|(i, is_local)| RouteHintHop {
                cltv_expiry_delta: 80,
                fees: RoutingFees { base_msat: 1000, proportional_millionths: 10 },
                htlc_maximum_msat: Some(1_000_000),
                htlc_minimum_msat: Some(1_000),
                short_channel_id: i as u64,
                src_node_id: if is_local.as_bool().unwrap_or(false) { local } else { other_node },
            }).collect();
            if !hops.is_empty() {
                b = b.private_route(RouteHint(hops));
            }
        }
    } else if spec["self_hint"].as_bool().unwrap_or(false) {
        let local: PublicKey = NODE_ID.parse().unwrap();
        b = b.private_route(RouteHint(vec![RouteHintHop {
            cltv_expiry_delta: 80,
            fees: RoutingFees { base_msat: 1000, proportional_millionths: 10 },
            htlc_maximum_msat: Some(1_000_000),
            htlc_minimum_msat: Some(1_000),
            short_channel_id: 0,
            src_node_id: local,
        }]));
    }
    let inv = b
        .build_signed(|h| Secp256k1::new().sign_ecdsa_recoverable(h, &payee_secret(ident)))
        .unwrap();
    let s = inv.to_string();
    if spec["sig_ok"].as_bool().unwrap_or(true) {
        s
    } else {
        // corrupt the signature part (last data characters before the 6 checksum chars) keeping it parseable is
        // not generally possible: produce an unparsable string instead, which the plugin must treat the same way
        let mut c: Vec<char> = s.chars().collect();
        let n = c.len();
        c[n - 10] = if c[n - 10] == 'q' { 'p' } else { 'q' };
        c.into_iter().collect()
    }
}

pub fn build_request(spec: &Value, invoices: &[Value]) -> HtlcAcceptedRequest {
    let mut entries = vec![];
    for e in spec["extra_payload"].as_array().cloned().unwrap_or_default() {
        entries.push(TlvEntry { typ: num(&e["typ"], 0), value: hex::decode(e["value"].as_str().unwrap_or("")).unwrap() });
    }
    if let Some(iv) = spec["invoice"].as_u64() {
        let mut meta = vec![];
        for e in spec["meta_prefix"].as_array().cloned().unwrap_or_default() {
            meta.push(TlvEntry { typ: num(&e["typ"], 0), value: hex::decode(e["value"].as_str().unwrap_or("")).unwrap() });
        }
        meta.push(TlvEntry { typ: 33001, value: invoice_string(&invoices[iv as usize]).into_bytes() });
        if let Some(a) = spec["tlv_amount"].as_str() {
            meta.push(TlvEntry { typ: 33003, value: hex::decode(a).unwrap() });
        }
        entries.push(TlvEntry { typ: 16, value: SerializedTlvStream::to_bytes(SerializedTlvStream::from(meta)) });
    }
    if let Some(raw) = spec["raw_metadata"].as_str() {
        entries.push(TlvEntry { typ: 16, value: hex::decode(raw).unwrap() });
    }
    let hash = match spec["hash"].as_str() {
        Some("other") => other_hash(),
        _ => hash_of(spec["hash_of"].as_u64().unwrap_or_else(|| {
            spec["invoice"].as_u64().map(|i| invoices[i as usize]["hash_of"].as_u64().unwrap_or(invoices[i as usize]["ident"].as_u64().unwrap_or(1))).unwrap_or(1)
        })),
    };
    HtlcAcceptedRequest {
        onion: Onion {
            payload: SerializedTlvStream::from(entries),
            short_channel_id: if spec["scid"].as_bool().unwrap_or(false) { Some("1x2x3".parse().unwrap()) } else { None },
            forward_msat: if spec["forward"].is_null() { None } else { Some(num(&spec["forward"], 0)) },
            total_msat: if spec["total"].is_null() { None } else { Some(num(&spec["total"], 0)) },
        },
        htlc: Htlc {
            short_channel_id: "0x0x0".parse().unwrap(),
            id: spec["k"].as_u64().unwrap_or(0),
            amount_msat: num(&spec["amount"], 0),
            cltv_expiry: num(&spec["cltv"], 0) as u32,
            cltv_expiry_relative: inum(&spec["cltv_rel"], 0),
            payment_hash: hash.to_byte_array().to_vec(),
        },
    }
}

// ---------------------------------------------------------------------------------------------
// node simulator
// ---------------------------------------------------------------------------------------------
#[derive(Clone, Debug)]
struct Part {
    id: u64,
    hash: String,
    inv: u64,
    status: String,
    groupid: u64,
    partid: u64,
}

#[derive(Default)]
struct Sim {
    datastore: BTreeMap<Vec<String>, (String, u64)>,
    parts: Vec<Part>,
    height: u64,
    pay_groups: u64,
}

impl Sim {
    fn key_of(v: &Value) -> Vec<String> {
        v.as_array().map(|a| a.iter().map(|x| x.as_str().unwrap_or("").to_string()).collect()).unwrap_or_default()
    }

    fn datastore(&mut self, p: &Value, fault: &str) -> Value {
        let key = Sim::key_of(&p["key"]);
        let mode = p["mode"].as_str().unwrap_or("must-create");
        let exists = self.datastore.contains_key(&key);
        if mode == "must-create" && exists {
            return json!({"error": {"code": 1202, "message": "already exists"}});
        }
        if mode == "must-replace" && !exists {
            return json!({"error": {"code": 1200, "message": "does not exist"}});
        }
        if let Some(g) = p["generation"].as_u64() {
            match self.datastore.get(&key) {
                None => return json!({"error": {"code": 1201, "message": "generation given but no entry"}}),
                Some((_, have)) => {
                    if *have != g {
                        return json!({"error": {"code": 1201, "message": "generation mismatch"}});
                    }
                }
            }
        }
        if fault == "reject" {
            return json!({"drop": true});
        }
        let s = p["string"].as_str().unwrap_or("").to_string();
        let gen = match self.datastore.get(&key) {
            None => 0,
            Some((_, g)) => g + 1,
        };
        self.datastore.insert(key.clone(), (s.clone(), gen));
        if fault == "lost-ack" {
            return json!({"drop": true});
        }
        json!({"result": {"key": key, "generation": gen, "string": s}})
    }

    fn listdatastore(&self, p: &Value) -> Value {
        let key = Sim::key_of(&p["key"]);
        match self.datastore.get(&key) {
            Some((s, g)) => json!({"result": {"datastore": [{"key": key, "generation": g, "string": s}]}}),
            None => json!({"result": {"datastore": []}}),
        }
    }

    fn entry(&self, p: &Part) -> Value {
        let mut v = json!({"id": p.id, "groupid": p.groupid, "partid": p.partid, "payment_hash": p.hash, "status": p.status,
            "created_at": 0, "amount_sent_msat": 0});
        if p.status == "complete" {
            v["payment_preimage"] = json!(hex::encode(preimage_of(p.inv)));
        }
        v
    }

    fn listsendpays(&self, p: &Value) -> Value {
        let h = p["payment_hash"].as_str().unwrap_or("");
        let st = p["status"].as_str();
        let out: Vec<Value> = self.parts.iter().filter(|x| x.hash == h && st.map(|s| s == x.status).unwrap_or(true)).map(|x| self.entry(x)).collect();
        json!({"result": {"payments": out}})
    }

    fn find_part(&self, p: &Value) -> Option<&Part> {
        let h = p["payment_hash"].as_str().unwrap_or("");
        self.parts.iter().find(|x| x.hash == h && p["groupid"].as_u64().map(|g| g == x.groupid).unwrap_or(true)
            && p["partid"].as_u64().unwrap_or(0) == x.partid)
    }
}

pub struct World {
    pub node: FakeNode,
    sim: Sim,
    manager: Option<Arc<Manager>>,
    watcher: Option<Arc<BlockWatcher>>,
    cfg: Value,
    invoices: Vec<Value>,
    pub responses: Arc<Mutex<Vec<Value>>>,
    handles: Vec<(u64, u64, tokio::task::JoinHandle<()>)>,
    epoch: u64,
    pub trace: Arc<Mutex<Vec<Value>>>,
    t0: tokio::time::Instant,
}

impl World {
    async fn answer_startup_getinfo(&mut self) {
        for _ in 0..2000 {
            if let Some(c) = self.node.take("getinfo") {
                let h = self.sim.height;
                self.node.answer(c, getinfo(h)).await;
                return;
            }
            settle().await;
            std::thread::sleep(Duration::from_micros(200));
        }
    }

    async fn start_manager(&mut self) {
        let rpc = Arc::new(Rpc::new(self.node.path.clone()));
        let cfg = self.cfg.clone();
        let mut bw = BlockWatcher::new(Arc::clone(&rpc));
        let (_tx, rx) = tokio::sync::mpsc::channel(1);
        std::mem::forget(_tx);
        let node = self.node.clone();
        let height = self.sim.height;
        let ans = tokio::spawn(async move {
            for _ in 0..2000 {
                if let Some(c) = node.take("getinfo") {
                    node.answer(c, getinfo(height)).await;
                    return;
                }
                settle().await;
                std::thread::sleep(Duration::from_micros(200));
            }
        });
        let _ = bw.start(rx).await;
        let _ = ans.await;
        let bw = Arc::new(bw);
        let policy = TrampolineRoutingPolicy {
            fee_base_msat: num(&cfg["policy"]["base"], 0) as u32,
            fee_proportional_millionths: num(&cfg["policy"]["ppm"], 0) as u32,
            cltv_expiry_delta: num(&cfg["policy"]["delta"], 0) as u16,
        };
        let provider = Arc::new(PayPaymentProvider::new(Arc::clone(&rpc), Duration::from_secs(60), cfg["xpay"].as_bool().unwrap_or(false)));
        let store = Arc::new(ClnDatastore::new(Arc::clone(&rpc)));
        let ns = Arc::new(EmailNotificationService::new(None).await);
        let manager = HtlcManager::new(HtlcManagerParams {
            allow_self_route_hints: cfg["allow_self"].as_bool().unwrap_or(true),
            block_provider: Arc::clone(&bw),
            cltv_delta: num(&cfg["cltv_delta"], 34) as u16,
            local_pubkey: NODE_ID.parse().unwrap(),
            mpp_timeout: Duration::from_secs(num(&cfg["mpp_timeout_s"], 60)),
            notification_service: ns,
            payment_provider: provider,
            routing_policy: policy,
            store,
        });
        self.manager = Some(Arc::new(manager));
        self.watcher = Some(bw);
        settle().await;
    }

    fn note(&mut self, mut v: Value) {
        v["t_ms"] = json!(self.t0.elapsed().as_millis() as u64);
        self.trace.lock().unwrap().push(v);
    }

    async fn wait_call(&mut self, method: &str, want: &Value) -> Option<PendingCall> {
        for _ in 0..600 {
            if let Some(c) = self.node.take_where(method, want) {
                return Some(c);
            }
            settle().await;
            std::thread::sleep(Duration::from_micros(200));
        }
        None
    }

    async fn step(&mut self, op: &Value) {
        let kind = op["op"].as_str().unwrap_or("");
        match kind {
            "htlc" => {
                let req = build_request(op, &self.invoices);
                let mgr = Arc::clone(self.manager.as_ref().unwrap());
                let k = op["k"].as_u64().unwrap_or(0);
                let epoch = self.epoch;
                let responses = Arc::clone(&self.responses);
                let trace = Arc::clone(&self.trace);
                let t0 = self.t0;
                let h = tokio::spawn(async move {
                    let resp = mgr.handle_htlc(&req).await;
                    let v = serde_json::to_value(&resp).unwrap_or(Value::Null);
                    trace.lock().unwrap().push(json!({"event": "response", "k": k, "epoch": epoch, "response": v, "t_ms": t0.elapsed().as_millis() as u64}));
                    responses.lock().unwrap().push(json!({"k": k, "epoch": epoch, "response": v}));
                });
                self.handles.push((epoch, k, h));
                self.note(json!({"event": "htlc", "k": k, "epoch": epoch, "amount": op["amount"]}));
                if !op["no_settle"].as_bool().unwrap_or(false) {
                    settle().await;
                }
            }
            "settle" => {
                for _ in 0..5 {
                    settle().await;
                    std::thread::sleep(Duration::from_micros(300));
                }
            }
            "advance" => {
                tokio::time::advance(Duration::from_millis(num(&op["ms"], 0))).await;
                self.note(json!({"event": "advance", "ms": op["ms"]}));
                for _ in 0..5 {
                    settle().await;
                    std::thread::sleep(Duration::from_micros(300));
                }
            }
            "block" => {
                let h = num(&op["height"], 0);
                self.sim.height = h;
                if let Some(w) = &self.watcher {
                    w.new_block(&BlockAdded { height: h as u32 }).await;
                }
                self.note(json!({"event": "block", "height": h}));
            }
            "part" => {
                // environment: a part resolves
                let id = num(&op["id"], 0);
                let st = op["status"].as_str().unwrap_or("failed").to_string();
                if let Some(p) = self.sim.parts.iter_mut().find(|p| p.id == id) {
                    p.status = st.clone();
                }
                self.note(json!({"event": "part", "id": id, "status": st}));
            }
            "pay_part" => {
                // environment: the running pay command creates a part for invoice `inv`
                let inv = num(&op["inv"], 1);
                let id = self.sim.parts.len() as u64;
                let g = 100 + self.sim.pay_groups;
                let n = self.sim.parts.iter().filter(|p| p.groupid == g).count() as u64;
                self.sim.parts.push(Part { id, hash: hash_of(inv).to_string(), inv, status: "pending".into(), groupid: g, partid: n + 1 });
                self.note(json!({"event": "part_created", "id": id}));
            }
            "old_part" => {
                let inv = num(&op["inv"], 1);
                let id = self.sim.parts.len() as u64;
                self.sim.parts.push(Part { id, hash: hash_of(inv).to_string(), inv, status: op["status"].as_str().unwrap_or("pending").into(),
                    groupid: num(&op["groupid"], 1), partid: num(&op["partid"], id + 1) });
            }
            "age_records" => {
                // wall-clock time passes (e.g. while the plugin is down): every stored Pending attempt becomes `s` seconds older
                let by = num(&op["s"], 0);
                for (k, (sv, _g)) in self.sim.datastore.iter_mut() {
                    if k.last().map(|x| x == "state").unwrap_or(false) && sv.contains("Pending") {
                        if let Ok(mut v) = serde_json::from_str::<Value>(sv) {
                            if let Some(at) = v["Pending"]["attempt_time_seconds"].as_u64() {
                                v["Pending"]["attempt_time_seconds"] = json!(at.saturating_sub(by));
                                *sv = v.to_string();
                            }
                        }
                    }
                }
                self.note(json!({"event": "age_records", "s": by}));
            }
            "store" => {
                // initial durable state for invoice `inv`: free | pending | succeeded
                let inv = num(&op["inv"], 1);
                let h = hash_of(inv).to_string();
                let key = vec!["trampoline".to_string(), "payments".to_string(), h.clone(), "state".to_string()];
                let gen = num(&op["generation"], 0);
                match op["state"].as_str().unwrap_or("free") {
                    "free" => {
                        self.sim.datastore.insert(key, ("\"Free\"".to_string(), gen));
                    }
                    "pending" => {
                        let now = SystemTime::now().duration_since(UNIX_EPOCH).unwrap().as_secs();
                        let age = inum(&op["age_s"], 0);
                        let at = (now as i64 - age).max(0) as u64;
                        let s = json!({"Pending": {"attempt_id": "4242", "attempt_time_seconds": at}}).to_string();
                        self.sim.datastore.insert(key, (s, gen));
                        if op["attempt_record"].as_bool().unwrap_or(true) {
                            let akey = vec!["trampoline".to_string(), "payments".to_string(), h, "attempts".to_string(), "4242".to_string()];
                            self.sim.datastore.insert(akey, ("{\"amount_msat\":0,\"bolt11\":\"x\",\"completed\":false,\"success\":false}".to_string(), 0));
                        }
                    }
                    "succeeded" => {
                        let s = json!({"Succeeded": {"preimage": preimage_of(inv).to_vec()}}).to_string();
                        self.sim.datastore.insert(key, (s, gen));
                    }
                    _ => {}
                }
            }
            "rpc" => {
                let method = op["method"].as_str().unwrap_or("").to_string();
                let wire = if method == "get_info" { "getinfo".to_string() } else { method.clone() };
                let call = self.wait_call(&wire, &op["match"]).await;
                let call = match call {
                    Some(c) => c,
                    None => {
                        self.note(json!({"event": "missing_call", "method": method}));
                        return;
                    }
                };
                let params = call.params.clone();
                let body = if let Some(f) = op.get("fault") {
                    if f.is_null() || f.as_str() == Some("transport") { json!({"drop": true}) } else { json!({"error": {"code": f, "message": "injected fault"}}) }
                } else {
                    match wire.as_str() {
                        "datastore" => self.sim.datastore(&params, op["write_fault"].as_str().unwrap_or("")),
                        "listdatastore" => self.sim.listdatastore(&params),
                        "listsendpays" => self.sim.listsendpays(&params),
                        "getinfo" => getinfo(self.sim.height),
                        "waitsendpay" => match self.sim.find_part(&params).cloned() {
                            None => json!({"error": {"code": 208, "message": "no such part"}}),
                            Some(p) => {
                                if p.status == "complete" {
                                    json!({"result": {"id": p.id, "groupid": p.groupid, "partid": p.partid, "payment_hash": p.hash, "status": "complete",
                                        "created_at": 0, "amount_sent_msat": 0, "payment_preimage": hex::encode(preimage_of(p.inv))}})
                                } else if p.status == "failed" {
                                    json!({"error": {"code": num(&op["code"], 204), "message": "part failed"}})
                                } else {
                                    // still pending: put the call back by not answering (script error)
                                    self.note(json!({"event": "waitsendpay_on_pending_part", "part": p.id}));
                                    json!({"error": {"code": 200, "message": "timeout (script answered a pending part)"}})
                                }
                            }
                        },
                        "pay" => {
                            let oc = op["outcome"].as_str().unwrap_or("failed");
                            let inv = num(&op["inv"], 1);
                            self.sim.pay_groups += 1;
                            if oc == "error:none" {
                                json!({"error": {"message": "no response from lightningd"}})
                            } else if oc.starts_with("error") {
                                let code: i64 = oc.split(':').nth(1).and_then(|x| x.parse().ok()).unwrap_or(210);
                                json!({"error": {"code": code, "message": "pay failed"}})
                            } else {
                                let status = match oc { "complete" => "complete", "pending" => "pending", _ => "failed" };
                                let pre = if oc == "complete" { hex::encode(preimage_of(inv)) } else { hex::encode([0u8; 32]) };
                                let mut r = json!({"payment_preimage": pre, "payment_hash": hash_of(inv).to_string(), "created_at": 0.0,
                                    "parts": 1, "amount_msat": 0, "amount_sent_msat": 0, "status": status});
                                if oc == "failed_warning" {
                                    r["warning_partial_completion"] = json!("partial");
                                } else if oc == "failed_warning_empty" {
                                    r["warning_partial_completion"] = json!("");
                                }
                                json!({"result": r})
                            }
                        }
                        _ => json!({"error": {"code": -32601, "message": "unknown method"}}),
                    }
                };
                self.note(json!({"event": "rpc", "method": method, "params": params, "answer": body,
                    "held": self.unanswered(), "parts": self.sim.parts.iter().map(|p| json!([p.id, p.status, p.groupid])).collect::<Vec<_>>(),
                    "own_group": if method == "pay" { json!(100 + self.sim.pay_groups - 1) } else { Value::Null },
                    "state_records": self.state_records()}));
                self.node.answer(call, body).await;
                for _ in 0..3 {
                    settle().await;
                    std::thread::sleep(Duration::from_micros(300));
                }
            }
            "restart" => {
                // a pay command that was still running keeps its group of parts: later commands get a new one
                if self.node.pending_methods().iter().any(|m| m == "pay") {
                    self.sim.pay_groups += 1;
                }
                for (_, _, h) in self.handles.drain(..) {
                    h.abort();
                }
                self.manager = None;
                self.watcher = None;
                // drop every unanswered call: lightningd went away with the plugin
                while let Some(c) = self.node.take("") {
                    drop(c);
                }
                self.epoch += 1;
                self.note(json!({"event": "restart", "epoch": self.epoch}));
                settle().await;
                self.start_manager().await;
            }
            _ => self.note(json!({"event": "unknown-op", "op": op})),
        }
    }

    fn unanswered(&self) -> Vec<Value> {
        let done: Vec<(u64, u64)> = self.responses.lock().unwrap().iter().map(|r| (r["epoch"].as_u64().unwrap(), r["k"].as_u64().unwrap())).collect();
        self.handles.iter().filter(|(e, k, _)| !done.contains(&(*e, *k))).map(|(e, k, _)| json!([e, k])).collect()
    }

    fn state_records(&self) -> Vec<Value> {
        self.sim.datastore.iter().filter(|(k, _)| k.last().map(|s| s == "state").unwrap_or(false))
            .map(|(k, (s, g))| json!({"key": k, "string": s, "generation": g})).collect()
    }
}

pub fn run(input: &Value) -> Value {
    let rt = tokio::runtime::Builder::new_current_thread().enable_all().start_paused(true).build().unwrap();
    rt.block_on(async {
        let node = FakeNode::start("mgr");
        let mut w = World {
            node,
            sim: Sim::default(),
            manager: None,
            watcher: None,
            cfg: input["config"].clone(),
            invoices: input["invoices"].as_array().cloned().unwrap_or_default(),
            responses: Arc::new(Mutex::new(vec![])),
            handles: vec![],
            epoch: 0,
            trace: Arc::new(Mutex::new(vec![])),
            t0: tokio::time::Instant::now(),
        };
        w.sim.height = num(&input["config"]["height"], 0);
        for op in input["setup"].as_array().cloned().unwrap_or_default() {
            w.step(&op).await;
        }
        w.start_manager().await;
        for op in input["steps"].as_array().cloned().unwrap_or_default() {
            w.step(&op).await;
        }
        for _ in 0..10 {
            settle().await;
            std::thread::sleep(Duration::from_micros(300));
        }
        // calls issued but not answered by the script (e.g. the pay call a counterexample ends with)
        let pending_methods = w.node.pending_methods();
        while let Some(c) = w.node.take("") {
            let method = if c.method == "getinfo" { "get_info".to_string() } else { c.method.clone() };
            let ev = json!({"event": "rpc", "method": method, "params": c.params, "answer": Value::Null, "held": w.unanswered(),
                "parts": w.sim.parts.iter().map(|p| json!([p.id, p.status, p.groupid])).collect::<Vec<_>>(),
                "own_group": if method == "pay" { json!(100 + w.sim.pay_groups) } else { Value::Null }, "state_records": w.state_records()});
            w.trace.lock().unwrap().push(ev);
            drop(c);
        }
        let mut panics = vec![];
        let mut still_waiting = vec![];
        for (e, k, h) in w.handles.drain(..) {
            if h.is_finished() {
                if let Err(err) = h.await {
                    if err.is_panic() {
                        panics.push(json!({"epoch": e, "k": k, "panic": err.to_string()}));
                    }
                }
            } else {
                still_waiting.push(json!([e, k]));
                h.abort();
            }
        }
        let responses = w.responses.lock().unwrap().clone();
        let trace = w.trace.lock().unwrap().clone();
        json!({"outcome": "ok", "responses": responses, "trace": trace, "still_waiting": still_waiting, "panics": panics,
            "pending_calls": pending_methods,
            "datastore": w.sim.datastore.iter().map(|(k, (s, g))| json!({"key": k, "string": s, "generation": g})).collect::<Vec<_>>(),
            "parts": w.sim.parts.iter().map(|p| json!({"id": p.id, "status": p.status})).collect::<Vec<_>>()})
    })
}
