//! Native scenarios for block_watcher (C20).
use crate::block_watcher::{BlockProvider, BlockWatcher};
use crate::fakenode::{settle, wait_for_call, FakeNode};
use crate::messages::BlockAdded;
use crate::rpc::Rpc;
use serde_json::{json, Value};
use std::sync::Arc;
use std::time::Duration;

pub const NODE_ID: &str = "02c8e87a7ab29092eba909533919c508839aea48d8e6a88c39c42a0f198a5f6401";

pub fn getinfo(height: u64) -> Value {
    json!({"result": {
        "id": NODE_ID, "alias": "verif", "color": "02c8e8", "num_peers": 0, "num_pending_channels": 0,
        "num_active_channels": 0, "num_inactive_channels": 0, "version": "v24.05", "blockheight": height,
        "network": "regtest", "fees_collected_msat": 0, "lightning-dir": "/tmp/l", "address": [], "binding": []
    }})
}

fn rt() -> tokio::runtime::Runtime {
    tokio::runtime::Builder::new_current_thread().enable_all().start_paused(true).build().unwrap()
}

async fn start_watcher(node: &FakeNode, init: u64) -> (Arc<BlockWatcher>, tokio::sync::mpsc::Sender<()>) {
    let rpc = Arc::new(Rpc::new(node.path.clone()));
    let mut bw = BlockWatcher::new(rpc);
    let (tx, rx) = tokio::sync::mpsc::channel(1);
    let n2 = node.clone();
    let answer = tokio::spawn(async move {
        let c = wait_for_call(&n2, "getinfo", 2000).await.expect("startup getinfo");
        n2.answer(c, getinfo(init)).await;
    });
    let _join = bw.start(rx).await.expect("start");
    let _ = answer.await;
    settle().await; // let the spawned poll loop arm its first timer
    (Arc::new(bw), tx)
}

/// {"init": h, "notifications": [h..], "polls": [h..]}: sequential delivery; after every source the
/// height must equal the running maximum.
pub fn run_height(input: &Value) -> Value {
    rt().block_on(async {
        let node = FakeNode::start("h");
        let init = input["init"].as_u64().unwrap_or(0);
        let (bw, _tx) = start_watcher(&node, init).await;
        let mut max = init;
        let mut obs = vec![];
        obs.push(json!({"after": "start", "height": bw.current_height().await, "expected_max": max}));
        // interleaved form: a poll may be in flight while notifications arrive
        let mut held = None;
        for ev in input["events"].as_array().cloned().unwrap_or_default() {
            match ev["op"].as_str().unwrap_or("") {
                "poll_start" => {
                    tokio::time::advance(Duration::from_secs(60)).await;
                    settle().await;
                    held = wait_for_call(&node, "getinfo", 2000).await;
                    if held.is_none() {
                        obs.push(json!({"after": "poll_start", "height": bw.current_height().await, "expected_max": max, "note": "no getinfo call after one poll interval"}));
                    }
                }
                "notify" => {
                    let h = ev["h"].as_u64().unwrap_or(0);
                    bw.new_block(&BlockAdded { height: h as u32 }).await;
                    max = max.max(h);
                    obs.push(json!({"after": format!("block_added({})", h), "height": bw.current_height().await, "expected_max": max}));
                }
                "poll_answer" => {
                    let h = ev["h"].as_u64().unwrap_or(0);
                    if let Some(c) = held.take() {
                        node.answer(c, getinfo(h)).await;
                        for _ in 0..20 { settle().await; std::thread::sleep(Duration::from_micros(200)); }
                        max = max.max(h);
                        obs.push(json!({"after": format!("poll({})", h), "height": bw.current_height().await, "expected_max": max}));
                    }
                }
                _ => {}
            }
        }
        for h in input["notifications"].as_array().cloned().unwrap_or_default() {
            let h = h.as_u64().unwrap();
            bw.new_block(&BlockAdded { height: h as u32 }).await;
            max = max.max(h);
            obs.push(json!({"after": format!("block_added({})", h), "height": bw.current_height().await, "expected_max": max}));
        }
        for h in input["polls"].as_array().cloned().unwrap_or_default() {
            let h = h.as_u64().unwrap();
            tokio::time::advance(Duration::from_secs(60)).await;
            settle().await;
            match wait_for_call(&node, "getinfo", 2000).await {
                Some(c) => node.answer(c, getinfo(h)).await,
                None => {
                    obs.push(json!({"after": "poll", "height": bw.current_height().await, "expected_max": max, "note": "no getinfo call after one poll interval"}));
                    continue;
                }
            }
            for _ in 0..20 { settle().await; std::thread::sleep(Duration::from_micros(200)); }
            max = max.max(h);
            obs.push(json!({"after": format!("poll({})", h), "height": bw.current_height().await, "expected_max": max}));
        }
        json!({"outcome": "ok", "observations": obs})
    })
}

/// One failed periodic poll must not stop polling: after the next interval the height catches up.
pub fn run_poll_loop(input: &Value) -> Value {
    rt().block_on(async {
        let node = FakeNode::start("p");
        let hs: Vec<u64> = input["heights"].as_array().map(|a| a.iter().map(|x| x.as_u64().unwrap()).collect()).unwrap_or(vec![100, 105]);
        let (bw, _tx) = start_watcher(&node, hs[0]).await;
        let mut notes = vec![];
        // first periodic poll fails
        tokio::time::advance(Duration::from_secs(60)).await;
        settle().await;
        match wait_for_call(&node, "getinfo", 2000).await {
            Some(c) => {
                node.answer(c, json!({"error": {"code": -1, "message": "transient"}})).await;
                notes.push("first periodic poll answered with an error");
            }
            None => notes.push("no first periodic poll"),
        }
        for _ in 0..20 { settle().await; std::thread::sleep(Duration::from_micros(200)); }
        // node advances; notifications are lost; one more interval
        tokio::time::advance(Duration::from_secs(60)).await;
        settle().await;
        let second = wait_for_call(&node, "getinfo", 2000).await;
        let polled_again = second.is_some();
        if let Some(c) = second {
            node.answer(c, getinfo(hs[1])).await;
        }
        for _ in 0..20 { settle().await; std::thread::sleep(Duration::from_micros(200)); }
        let h = bw.current_height().await as u64;
        json!({"outcome": "ok", "polled_again": polled_again, "height": h, "node_height": hs[1], "caught_up": h == hs[1], "notes": notes})
    })
}
