//! In-process fake `lightning-rpc` unix socket.  Every connection carries one request
//! (cln-rpc opens a connection per call).  Requests are queued; the script answers them
//! one by one, so the order in which the real code sees answers is the script's order.
use serde_json::{json, Value};
use std::collections::VecDeque;
use std::sync::{Arc, Mutex};
use tokio::io::{AsyncReadExt, AsyncWriteExt};
use tokio::net::{UnixListener, UnixStream};

pub struct PendingCall {
    pub seq: usize,
    pub method: String,
    pub params: Value,
    pub id: Value,
    stream: UnixStream,
}

#[derive(Default)]
pub struct NodeState {
    pub pending: VecDeque<PendingCall>,
    pub log: Vec<Value>,
    pub seq: usize,
}

#[derive(Clone)]
pub struct FakeNode {
    pub path: String,
    pub state: Arc<Mutex<NodeState>>,
}

impl FakeNode {
    pub fn start(tag: &str) -> FakeNode {
        let path = format!("/tmp/verif-replay-{}-{}.sock", std::process::id(), tag);
        let _ = std::fs::remove_file(&path);
        let listener = UnixListener::bind(&path).expect("bind fake lightning-rpc");
        let state = Arc::new(Mutex::new(NodeState::default()));
        let st = state.clone();
        tokio::spawn(async move {
            loop {
                let (mut stream, _) = match listener.accept().await {
                    Ok(x) => x,
                    Err(_) => return,
                };
                let st = st.clone();
                tokio::spawn(async move {
                    let mut buf = Vec::new();
                    let mut tmp = [0u8; 4096];
                    loop {
                        match stream.read(&mut tmp).await {
                            Ok(0) => return,
                            Ok(n) => buf.extend_from_slice(&tmp[..n]),
                            Err(_) => return,
                        }
                        if buf.windows(2).any(|w| w == b"\n\n") {
                            break;
                        }
                    }
                    let text = String::from_utf8_lossy(&buf).to_string();
                    let req: Value = serde_json::from_str(text.trim()).unwrap_or(Value::Null);
                    let mut g = st.lock().unwrap();
                    let seq = g.seq;
                    g.seq += 1;
                    let method = req["method"].as_str().unwrap_or("").to_string();
                    g.log.push(json!({"seq": seq, "event": "call", "method": method, "params": req["params"]}));
                    g.pending.push_back(PendingCall { seq, method, params: req["params"].clone(), id: req["id"].clone(), stream });
                });
            }
        });
        FakeNode { path, state }
    }

    /// Take the oldest pending call of `method` (or any if method is empty).
    pub fn take(&self, method: &str) -> Option<PendingCall> {
        let mut g = self.state.lock().unwrap();
        let pos = g.pending.iter().position(|c| method.is_empty() || c.method == method)?;
        g.pending.remove(pos)
    }

    /// Oldest pending call of `method` whose params contain every key/value of `want` (strings compared case-insensitively).
    pub fn take_where(&self, method: &str, want: &Value) -> Option<PendingCall> {
        let mut g = self.state.lock().unwrap();
        // "skip": n = the (n+1)-th oldest of the matching calls (several look-alike calls outstanding)
        let skip = want.get("skip").and_then(|x| x.as_u64()).unwrap_or(0) as usize;
        let pos = g.pending.iter().enumerate().filter(|(_, c)| {
            if c.method != method {
                return false;
            }
            match want.as_object() {
                None => true,
                Some(o) => o.iter().filter(|(k, _)| k.as_str() != "skip").all(|(k, v)| {
                    if k == "key_kind" {
                        // "state" | "attempts": fourth component of a trampoline datastore key
                        return c.params["key"].as_array().and_then(|a| a.get(3)).and_then(|x| x.as_str()) == v.as_str();
                    }
                    if k == "string_contains" {
                        return c.params["string"].as_str().map(|s| s.contains(v.as_str().unwrap_or(""))).unwrap_or(false);
                    }
                    if k == "groupid_old" {
                        // parts of an attempt found at start have group 1, parts of pay commands issued in this run 100+
                        return (c.params["groupid"].as_u64().unwrap_or(0) == 1) == v.as_bool().unwrap_or(false);
                    }
                    if k == "has_generation" {
                        return c.params["generation"].is_null() != v.as_bool().unwrap_or(false);
                    }
                    let have = &c.params[k];
                    match (have.as_str(), v.as_str()) {
                        (Some(a), Some(b)) => a.eq_ignore_ascii_case(b),
                        _ => have == v,
                    }
                }),
            }
        }).map(|(i, _)| i).nth(skip)?;
        g.pending.remove(pos)
    }

    pub fn pending_methods(&self) -> Vec<String> {
        self.state.lock().unwrap().pending.iter().map(|c| c.method.clone()).collect()
    }

    pub fn log(&self) -> Vec<Value> {
        self.state.lock().unwrap().log.clone()
    }

    pub fn note(&self, v: Value) {
        self.state.lock().unwrap().log.push(v);
    }

    pub async fn answer(&self, mut call: PendingCall, body: Value) {
        // body is {"result": ..} or {"error": {"code":..,"message":..}}; "drop" closes the socket unanswered
        if body.get("drop").is_some() {
            self.note(json!({"seq": call.seq, "event": "dropped", "method": call.method}));
            drop(call);
            return;
        }
        let mut resp = json!({"jsonrpc": "2.0", "id": call.id});
        if let Some(r) = body.get("result") {
            resp["result"] = r.clone();
        } else {
            resp["error"] = body["error"].clone();
        }
        self.note(json!({"seq": call.seq, "event": "answer", "method": call.method, "body": body}));
        let text = format!("{}\n\n", resp);
        let _ = call.stream.write_all(text.as_bytes()).await;
        let _ = call.stream.flush().await;
    }
}

impl Drop for FakeNode {
    fn drop(&mut self) {
        if Arc::strong_count(&self.state) <= 2 {
            let _ = std::fs::remove_file(&self.path);
        }
    }
}

/// Let every runnable task make progress: yield repeatedly on the current-thread runtime.
pub async fn settle() {
    for _ in 0..200 {
        tokio::task::yield_now().await;
    }
}

/// Wait (yielding; real I/O on the unix socket needs a few reactor turns) until a call of
/// `method` is pending or `tries` are exhausted.
pub async fn wait_for_call(node: &FakeNode, method: &str, tries: usize) -> Option<PendingCall> {
    wait_for_call_where(node, method, &Value::Null, tries).await
}

pub async fn wait_for_call_where(node: &FakeNode, method: &str, want: &Value, tries: usize) -> Option<PendingCall> {
    for _ in 0..tries {
        if let Some(c) = node.take_where(method, want) {
            return Some(c);
        }
        settle().await;
        // socket readiness is signalled by the I/O driver: give it real time without advancing the paused clock
        std::thread::sleep(std::time::Duration::from_micros(200));
    }
    None
}
