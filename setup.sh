#!/bin/bash
# Build every cache the checks need, offline, from files on disk only.
set -e
DIR="$(cd "$(dirname "$0")" && pwd)"
cd "$DIR"
export CARGO_NET_OFFLINE=true
export PYTHONPATH="$DIR"
mkdir -p cache out evidence
python3-vt - <<'PY'
from vf import dump, replay
for mode in ('on', 'off'):
    t, p, s, c = dump.get_mir(mode)
    print('mir', mode, p, '%.1fs' % s, 'cached' if c else 'dumped', len(t), 'bytes')
for prof in ('dev', 'release'):
    print('replay', prof, replay.build(prof))
PY
echo setup done
