#!/bin/bash
# usage: tools/benign_sweep.sh <dir with patch.diff> [checks...]
# Applies a behaviour-preserving refactoring to a scratch worktree and runs the quick checks on it (symbolic side via
# VERIF_REPO).  Every line should end in PASS: anything else is a false alarm or a gap of the MIR interpreter.
D=$(cd "$1" && pwd); shift
N=$(basename $D); WT=/tmp/wt/ben-$N
CHECKS=${@:-C01 C02 C03 C04 C05 C06 C07 C08 C09 C10 C11 C12 C13 C14 C15 C16 C17 C18 C19 C20}
git -C /repo worktree remove --force $WT 2>/dev/null
git -C /repo worktree add -q --detach $WT HEAD || exit 9
git -C $WT apply $D/patch.diff || { echo "$N: PATCH-DOES-NOT-APPLY"; git -C /repo worktree remove --force $WT; exit 1; }
cd /verif
echo $CHECKS | tr ' ' '\n' | xargs -P ${JOBS:-5} -I{} sh -c "OUT=\$(VERIF_REPO=$WT timeout 1500 ./check {} --tier quick 2>&1); echo \"$N {} exit=\$? \$(echo \"\$OUT\" | grep -E 'INCONCLUSIVE|VIOLATION' | head -1 | cut -c1-300)\""
git -C /repo worktree remove --force $WT
