#!/bin/bash
# usage: tools/confirm_seed.sh <seed-dir with patch.diff demo.diff meta.json> [base-commit]
# Confirms in a scratch worktree: patch compiles + 56 tests pass; demo fails with patch; demo passes without.
D="$(cd "$1" && pwd)"; BASE="${2:-HEAD}"
N=$(basename "$D")
WT=/tmp/wt/confirm-$N
export CARGO_NET_OFFLINE=true
git -C /repo worktree remove --force $WT 2>/dev/null
git -C /repo worktree add -q --detach $WT $BASE || exit 9
cp -r /repo/target $WT/target 2>/dev/null
cd $WT
res() { echo "$N: $*" | tee -a /tmp/wt/confirm.log; }
TEST=$(python3 -c "import json;print(json.load(open('$D/meta.json')).get('demo_test_name',''))")
git apply --3way "$D/patch.diff" 2>/dev/null || git apply "$D/patch.diff" || { res "PATCH-DOES-NOT-APPLY"; cd /; git -C /repo worktree remove --force $WT; exit 1; }
git reset -q
S1=$(cargo test --offline 2>&1 | grep -E "^test result" | head -1)
echo "$S1" | grep -q "56 passed; 0 failed" || { res "SUITE-NOT-GREEN-WITH-PATCH: $S1"; cd /; git -C /repo worktree remove --force $WT; exit 1; }
git apply --3way "$D/demo.diff" 2>/dev/null || git apply "$D/demo.diff" || { res "DEMO-DOES-NOT-APPLY"; cd /; git -C /repo worktree remove --force $WT; exit 1; }
git reset -q
S2=$(timeout 900 cargo test --offline $TEST 2>&1 | grep -E "^test result" | grep -v " 0 passed; 0 failed" | head -3 | tr '\n' ' ')
echo "$S2" | grep -qE "[1-9][0-9]* failed" || { res "DEMO-DOES-NOT-FAIL-WITH-PATCH: $S2"; cd /; git -C /repo worktree remove --force $WT; exit 1; }
git apply -R "$D/patch.diff" || { res "CANNOT-REVERT"; cd /; git -C /repo worktree remove --force $WT; exit 1; }
S3=$(timeout 900 cargo test --offline $TEST 2>&1 | grep -E "^test result" | grep -v " 0 passed; 0 failed" | head -3 | tr '\n' ' ')
echo "$S3" | grep -qE "[1-9][0-9]* failed" && { res "DEMO-FAILS-WITHOUT-PATCH: $S3"; cd /; git -C /repo worktree remove --force $WT; exit 1; }
echo "$S3" | grep -qE "[1-9][0-9]* passed" || { res "DEMO-DID-NOT-RUN-WITHOUT-PATCH: $S3"; cd /; git -C /repo worktree remove --force $WT; exit 1; }
res "CONFIRMED suite-with-patch=[$S1] demo-with-patch=[$S2] demo-without=[$S3]"
cd /; git -C /repo worktree remove --force $WT
exit 0
