#!/bin/bash
# usage: tools/try_mutant.sh <patch.diff> <ID> [ID...]   -- applies to /repo, runs quick checks, reverts
P="$1"; shift
cd /repo || exit 9
git diff --quiet || { echo "/repo dirty"; exit 9; }
git apply --3way "$P" 2>/dev/null || git apply "$P" || { echo "patch does not apply"; exit 9; }
git reset -q 2>/dev/null
for id in "$@"; do
  ( cd /verif && timeout ${MUT_TIMEOUT:-1200} ./check $id --tier ${MUT_TIER:-quick} 2>&1 | grep -E "VIOLATION|KNOWN|INCONCLUSIVE|PASS" | head -6; echo "[$id exit=${PIPESTATUS[0]}]" )
done
cd /repo && git checkout -- . && git clean -fdq -e target
