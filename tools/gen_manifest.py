#!/usr/bin/env python3
"""Regenerate MANIFEST.json from the table below (single source of truth for what is claimed)."""
import json, os
HERE = os.path.dirname(os.path.dirname(os.path.abspath(__file__)))

TRUST = ('mirsym (own MIR symbolic executor, /verif/vf) and its boundary intrinsics listed in the evidence; '
         'rustc nightly -Zunpretty=mir as the faithful lowering of /repo; z3 as the deciding solver; '
         'native replay crate includes /repo/src/*.rs by #[path] unmodified')

CHECKS = {
 'C12': dict(category='proof',
   text='fee_sufficient (both overflow-check modes) is executed symbolically from the MIR over all u64 x u64 x u32 x u32 inputs: '
        'z3 shows no panic path is feasible and that on every path the result equals the exact integer predicate '
        '(every intermediate < 2^64); HtlcFailReason::encode is shown to emit exactly 20 1a | be32(base) | be32(ppm) | be16(delta) '
        'for all policy values. No bound: these are full-domain obligations. Counterexamples are replayed natively (dev + release).',
   design='4/C12', technique='symbolic execution of rustc MIR, integer-encoded SMT (z3), native replay',
   note=TRUST + '; oracle reading of DESIGN 2.4 (every intermediate of the right-hand side must fit 64 bits).'),
 'C18': dict(category='model_checking',
   text='The real from_bytes / try_from / to_bytes / get_compact_size / put_compact_size / get_tu64 MIR is executed on symbolic byte strings: '
        'every byte string of each length 0..8 (quick) / 0..11 (thorough) is covered by solver-decided path classes and none may end in a panic; '
        'compact-size round trip is decided for all u64 (no bound); for every record list within the bounds (types full u64) to_bytes equals an '
        'independent BOLT reference encoding and from_bytes of that encoding returns the records; get_tu64 equals the big-endian value for 0..8 bytes and errs for 9..12. '
        'Every explored path witness is re-run natively and must agree (translation validation of the bytes intrinsics).',
   design='4/C18', technique='symbolic execution of rustc MIR over symbolic byte arrays, SMT (z3), exhaustive path enumeration within byte bounds, native replay of every path witness',
   note=TRUST + '; bytes 1.6 Buf/BufMut contracts in vf/lib_bytes.py; bound: byte strings up to the stated length, record lists up to the stated size.'),
}

NOT_YET = 'harness not built yet in this session (see DESIGN.md build order); will be claimed once its check exists'
ALL = ['C%02d' % i for i in range(1, 21)]

def main():
    checks = []
    for pid in ALL:
        c = CHECKS.get(pid)
        if not c:
            continue
        checks.append({
            'property_id': pid,
            'quick_cmd': './check %s --tier quick' % pid,
            'thorough_cmd': './check %s --tier thorough' % pid,
            'evidence_file': '/verif/evidence/%s.json' % pid,
            'replay_cmd_template': './check %s --replay {path}' % pid,
            'engine': 'mirsym',
            'level_claimed': {'category': c['category'], 'text': c['text'], 'design_ref': c['design']},
            'level_note': c['note'],
            'technique': c['technique'],
        })
    na = [{'property_id': p, 'reason': NOT_YET} for p in ALL if p not in CHECKS]
    man = {
        'version': 1,
        'setup_cmd': './setup.sh',
        'hooks': {
            'guard': 'none',
            'enable': 'no source hooks: checks read the MIR dump of the unmodified tree and include /repo/src by #[path] in the replay crate',
            'baseline_off_cmd': 'cd /repo && cargo test --workspace --no-fail-fast --offline',
            'source_commits': [],
            'add_only': True,
        },
        'engines': [
            {'name': 'mirsym', 'path': '/verif/vf', 'serves_properties': sorted(CHECKS),
             'kind_free_text': 'symbolic abstract machine over rustc MIR text (regenerated from /repo on every run), z3 decides every branch and assertion'},
            {'name': 'replay', 'path': '/verif/replay', 'serves_properties': sorted(CHECKS),
             'kind_free_text': 'native crate including /repo/src/*.rs by #[path]; replays solver models in dev and release profiles'},
        ],
        'checks': checks,
        'not_applicable': na,
        'notes': 'Exit codes: 0 pass, 1 VIOLATION (natively reproduced, not a known finding), 2 INCONCLUSIVE (build failure, unsupported construct, bound exceeded, solver unknown, non-reproducing counterexample).',
    }
    with open(os.path.join(HERE, 'MANIFEST.json'), 'w') as f:
        json.dump(man, f, indent=1)
    print('MANIFEST.json: %d checks, %d not_applicable' % (len(checks), len(na)))

if __name__ == '__main__':
    main()
