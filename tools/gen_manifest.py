#!/usr/bin/env python3
"""Regenerate MANIFEST.json from the table below (single source of truth for what is claimed)."""
import json, os
HERE = os.path.dirname(os.path.dirname(os.path.abspath(__file__)))

TRUST = ('mirsym (own MIR symbolic executor, /verif/vf) and its boundary intrinsics listed in the evidence; '
         'rustc nightly -Zunpretty=mir as the faithful lowering of /repo; z3 as the deciding solver; '
         'native replay crate includes /repo/src/*.rs by #[path] unmodified')

CHECKS = {
 'C12': dict(category='proof',
   text='fee_sufficient (both overflow-check modes) is executed symbolically from the MIR over all u64 x u64 x u32 x u32 inputs: '
        'z3 shows no panic path is feasible and that on every path the result equals the exact integer predicate '
        '(every intermediate < 2^64); HtlcFailReason::encode is shown to emit exactly 20 1a | be32(base) | be32(ppm) | be16(delta) '
        'for all policy values. No bound: these are full-domain obligations. Counterexamples are replayed natively (dev + release).',
   design='4/C12', technique='symbolic execution of rustc MIR, integer-encoded SMT (z3), native replay',
   note=TRUST + '; oracle reading of DESIGN 2.4 (every intermediate of the right-hand side must fit 64 bits).'),
 'C18': dict(category='model_checking',
   text='The real from_bytes / try_from / to_bytes / get_compact_size / put_compact_size / get_tu64 MIR is executed on symbolic byte strings: '
        'every byte string of each length 0..8 (quick) / 0..11 (thorough) is covered by solver-decided path classes and none may end in a panic; '
        'compact-size round trip is decided for all u64 (no bound); for every record list within the bounds (types full u64) to_bytes equals an '
        'independent BOLT reference encoding and from_bytes of that encoding returns the records; get_tu64 equals the big-endian value for 0..8 bytes and errs for 9..12. '
        'Every explored path witness is re-run natively and must agree (translation validation of the bytes intrinsics).',
   design='4/C18', technique='symbolic execution of rustc MIR over symbolic byte arrays, SMT (z3), exhaustive path enumeration within byte bounds, native replay of every path witness',
   note=TRUST + '; bytes 1.6 Buf/BufMut contracts in vf/lib_bytes.py; bound: byte strings up to the stated length, record lists up to the stated size.'),
 'C20': dict(category='model_checking',
   text='update_height is executed from its lowered-coroutine MIR for all (stored, new) u32 pairs: afterwards stored = max, the mutex is free, result is Some(new) iff raised '
        '(one inductive step, covers histories of any length together with the static fact, read from the MIR call graph, that no other body writes through the height guard); '
        'new_block / poll_height tasks race on the shared height under every interleaving at await granularity (monotonicity checked after every step, final value = max of everything told); '
        'the real poll_forever select!-loop is executed against a timer/RPC model: every iteration waits exactly 60 s, polls unconditionally, and a failed poll does not leave the loop.',
   design='4/C20', technique='symbolic execution of lowered async state machines from MIR under an explicit-state scheduler, SMT-decided data',
   note=TRUST + '; tokio Mutex/mpsc/sleep/select contracts (vf/lib_tokio.py); bounds: 2 notifications + 1 poll (quick), loop 2 iterations.'),
 'C15': dict(category='model_checking',
   text='The real PayPaymentProvider::wait_payment coroutine (async-trait box, FuturesUnordered, filter_map closure) runs against the node model with 0..2 (quick) / 0..3 (thorough) parts in '
        'arbitrary initial states; parts resolve at every possible point relative to the linearisation points of the list and wait RPCs, with every part-failure code the function distinguishes (202, 203, 204, 208, 209) and one non-tolerated RPC error (200 / transport; thorough also -1, 999) anywhere. '
        'At the instant the future completes: Some(p) only if a part is complete with p = pre(H); None only if no part is pending or complete; Err only after an RPC error. '
        'All interleavings within the bounds are enumerated; counterexamples are replayed against the real provider over a fake lightning-rpc socket.',
   design='4/C15', technique='symbolic execution of the async state machine from MIR + exhaustive environment interleavings (explicit-state, SMT for data)',
   note=TRUST + '; node model of listsendpays/waitsendpay (vf/env_node.py); bound: number of parts.'),
 'C16': dict(category='model_checking',
   text='The real pay wrapper (both xpay settings) runs against the node model: every pay outcome (complete, pending, failed, failed with a non-empty or an empty partial-completion warning, RPC error 210, RPC error without a node error code) x parts created by the command '
        '(<=1 quick / <=2 thorough) x one pre-existing part in any state x every later resolution order. Ok(p) only with the preimage of a complete part, Err only when no part is pending or complete; '
        'the PayRequest forwarded carries exactly bolt11, amount, maxfee, maxdelay, retry_for (symbolic over their full ranges).',
   design='4/C16', technique='symbolic execution of the async state machine from MIR + exhaustive environment interleavings (explicit-state, SMT for data)',
   note=TRUST + '; node model of pay/listsendpays/waitsendpay; bound: parts per command, one pre-existing part; RPC faults inside wait_payment only in the thorough tier.'),
 'C03': dict(category='model_checking',
   text='Full stack from MIR (handle_htlc, check_htlc, PaymentState, payment_lifecycle with its select!, resolve, ClnDatastore, PayPaymentProvider, BlockWatcher) as tasks under the scheduler with '
        'symbolic HTLC amounts / declared totals / forward amounts / invoice amount (present, absent, present + amount TLV) / policy. At every pay RPC call the solver decides: '
        'sum of the amounts of the HTLCs registered for the hash >= amount to deliver + base + floor(amount*ppm/1e6); maxfee <= held - amount; amount argument None iff the invoice has an amount '
        'else exactly the declared amount; and no counted HTLC is answered before pay returns. All schedules of <=2 (quick) / <=3 (thorough) HTLCs. Last clause (held until the fate is known): a two-part outgoing payment whose pay command ends without a final answer, and a restart with two earlier parts: no counted HTLC is failed, and no second pay is funded, while a part is in flight.',
   design='4/C03', technique='symbolic execution of the real async stack from MIR under an explicit-state scheduler with partial-order reduction; SMT decides data; native replay over a fake node',
   note=TRUST + '; node + tokio contracts; products abstracted by an uninterpreted function during search and re-validated exactly on any counterexample; single HTLC amount <= money supply.'),
 'C01': dict(category='model_checking',
   text='Full stack from MIR with the HTLC payment hash symbolic and independent of the invoice hash. At every Resolve handed to an HTLC the solver decides payment_key = pre(htlc hash); '
        'at every pay call every registered HTLC has the invoice hash; every Succeeded record written holds pre(key hash). Stored histories: absent / Pending with a live or dead part / Succeeded. '
        'All schedules of <=2 HTLCs (quick), plus one crash (thorough).',
   design='4/C01', technique='symbolic execution of the real async stack from MIR under an explicit-state scheduler with partial-order reduction; SMT decides data; native replay over a fake node',
   note=TRUST + '; SHA-256 not executed: preimages are terms pre(h); invoice parsing is an oracle keyed by the invoice bytes.'),
 'C04': dict(category='model_checking',
   text='Full stack from MIR with symbolic expiries, safety delta and policy delta; heights reach the plugin while the set is collected through the crate\'s own update_height (run as a task), each one a new tip or a stale height: '
        'at every pay call maxdelay is present and <= max(0, min expiry of the HTLCs registered when the lifecycle read the table - highest height processed by then - cltv_delta) and <= policy delta; an HTLC with relative expiry below the policy delta on a still-incomplete set never leads to pay.',
   design='4/C04', technique='symbolic execution of the real async stack from MIR under an explicit-state scheduler with partial-order reduction; SMT decides data; native replay over a fake node',
   note=TRUST + '; bounds: 1x1 and 2x1 HTLCs x heights told (quick), 1x2, 1x3, 2x1, and 2x2 with new tips only (thorough).'),
 'C07': dict(category='model_checking',
   text='Full stack from MIR: every resolution event hands the same response to every registered listener and leaves none behind; with symbolic fields, any HTLC that is rejecting (fee on declared total, '
        'relative expiry) on a still-incomplete set never leads to pay; two parts with conflicting trampoline info (different invoice string for one hash; same amountless invoice with different amount TLVs) '
        'never lead to pay. Stored state free / pending / succeeded. All schedules incl. every select! start index. Restart configurations: a rejection raised while an interrupted attempt is still being settled stays in force; replayed parts of an invoice recorded as paid are all settled.',
   design='4/C07', technique='symbolic execution of the real async stack from MIR under an explicit-state scheduler with partial-order reduction; SMT decides data; native replay over a fake node',
   note=TRUST + '; bounds: 2 HTLCs (quick) / 3 (thorough), 1 part.'),
 'C11': dict(category='model_checking',
   text='Full stack from MIR with a symbolic MPP timeout (1..2^32-1 s) and partial HTLCs that never reach the required total (assumed on the symbolic inputs): the only response is temporary_trampoline_failure, '
        'decided only after the timer fired; the timer duration term equals the configured timeout and it is armed in the lifecycle step that received the store answer; no pay is ever issued. '
        'Restart path (Pending record, dead earlier attempt, symbolic attempt time older or newer than now): duration = timeout - min(timeout, now - attempt time), never more than one period; zero => immediate failure. Lock discipline (no RPC, pause or blocking send with the payments lock held) on a funded payment, with a datastore fault, and with two failing late parts while paying.',
   design='4/C11', technique='symbolic execution of the real async stack from MIR under an explicit-state scheduler with partial-order reduction; SMT decides data; native replay over a fake node',
   note=TRUST + '; tokio timer accuracy is a contract; bounds: 2 partial HTLCs (quick) / 3.'),
 'C13': dict(category='model_checking',
   text='The real handle_htlc / check_htlc / extract_trampoline_info / default_response / TLV code runs on every class of non-trampoline request (forward with valid metadata, no metadata, missing forward_msat, '
        'bad signature, foreign hash, disagreeing or 9-byte amount field) with symbolic numeric fields, and on every metadata byte string of length 0..6 (quick) / 0..9: the response is Continue on the first poll, '
        'with no RPC call, spawn, table insertion or timer; a rewritten payload equals the other records byte for byte and in order (record 16 placed in the middle of the payload). Also: sibling records at BigSize boundaries, metadata repeating the invoice record (first one unusable), a plain HTLC while a trampoline payment of the same hash is pending.',
   design='4/C13', technique='symbolic execution of the real async stack from MIR under an explicit-state scheduler with partial-order reduction; SMT decides data; native replay over a fake node',
   note=TRUST + '; invoice oracle: byte strings other than the scenario invoices do not parse; other payload records concrete.'),
 'C06': dict(category='model_checking',
   text='Full stack from MIR: no task (handler or lifecycle) panics, no mpsc send blocks while the payments lock is held, no listener is answered twice, and in every quiescent state no handler is still waiting - '
        'for 2 symbolic HTLCs, for extra HTLCs arriving while pay is in flight, with one injected RPC fault (any method, Rpc or transport error) on the fresh and on the restart path, '
        'and for every metadata byte string of length 0..5 (quick) / 0..9 through the real TLV code.',
   design='4/C06', technique='symbolic execution of the real async stack from MIR under an explicit-state scheduler with partial-order reduction; SMT decides data; native replay over a fake node',
   note=TRUST + '; fairness: a retried RPC answers after at most the fault budget of consecutive errors; timers eventually fire; JSON layer outside.'),
 'C14': dict(category='model_checking',
   text='Lock discipline on every path: no RPC call, timer or blocking send is started while the payments mutex is held (2 symbolic HTLCs; extra HTLCs while paying). Two payments with distinct symbolic hashes: '
        'payment A frozen at each of its first 5 RPCs or on its timer, payment B still settles with its own preimage; every datastore key of a lifecycle names its own hash; the fee budget of B comes from B only. Lock discipline also with one RPC fault (fresh and restart path) and with the block watcher\'s height poll in flight.',
   design='4/C14', technique='symbolic execution of the real async stack from MIR under an explicit-state scheduler with partial-order reduction; SMT decides data; native replay over a fake node',
   note=TRUST + '; quick tier: B arrives once A is stuck (thorough: free interleaving); 1 HTLC per hash.'),
 'C02': dict(category='model_checking',
   text='Full stack from MIR: at the instant any Fail is handed to a held HTLC (once an outgoing attempt exists) no part is pending or complete and no pay command is running. '
        'Configurations: every stored history (absent / Pending with a pending, complete or failed earlier part / Succeeded); every pay outcome (complete, pending, failed, failed+warning, RPC error) with any part resolution order; '
        'a second set arriving at any point of the first lifecycle; one whole-node crash at any point with replay of unanswered HTLCs; one injected RPC fault on listsendpays / waitsendpay / listdatastore / datastore.',
   design='4/C02', technique='symbolic execution of the real async stack from MIR under an explicit-state scheduler with partial-order reduction; SMT decides data; native replay over a fake node',
   note=TRUST + '; bounds: 1 part per pay command + 1 earlier, 1 crash, 1 fault.'),
 'C05': dict(category='model_checking',
   text='Full stack from MIR: at every pay RPC call no part of that hash is pending or complete and no other pay is running - over every stored history, every pay outcome and part resolution order, '
        'two consecutive sets for one invoice (the second arriving anywhere in the tail of the first lifecycle), and one crash at any point.',
   design='4/C05', technique='symbolic execution of the real async stack from MIR under an explicit-state scheduler with partial-order reduction; SMT decides data; native replay over a fake node',
   note=TRUST + '; bounds: 1 part per pay command + 1 earlier, 1 crash; RPC faults only in the thorough tier.'),
 'C08': dict(category='model_checking',
   text='Full stack from MIR with the real ClnDatastore against the datastore model: after every applied environment effect (each a possible crash image) a pending or complete part implies a Pending or Succeeded record; '
        'the Pending record is applied before the pay call; Succeeded holds pre(H); two lifecycles of one hash, one crash, one datastore write rejected or applied-but-reported-failed.',
   design='4/C08', technique='symbolic execution of the real async stack from MIR under an explicit-state scheduler with partial-order reduction; SMT decides data; native replay over a fake node',
   note=TRUST + '; serde_json is a token contract (the JSON text is outside); bounds as C02.'),
 'C09': dict(category='model_checking',
   text='Full stack from MIR over consecutive manager lifetimes on one node model: a funded HTLC is interrupted by one crash at any point, or by one datastore write that is rejected or applied-but-reported-failed; '
        'leftover parts resolve arbitrarily; then up to two fully funded retries run against a cooperative node. Violation = no retry is settled (and in particular a failing retry leaves the durable state '
        'exactly as it found it, the decidable form of "permanently"). Also retries that arrive in two parts, one after the other, after a crash during pay.',
   design='4/C09', technique='symbolic execution of the real async stack from MIR under an explicit-state scheduler with partial-order reduction; SMT decides data; native replay over a fake node',
   note=TRUST + '; bounds: 1 crash or 1 write fault (thorough: both), 2 retries, 1 part.'),
 'C10': dict(category='model_checking',
   text='The real handle_htlc / check_htlc / extract_trampoline_info / get_tu64 / TLV code runs with a fully symbolic invoice oracle (signature validity, hash equal or different, amount present or absent, '
        'two route hints of 2 and 1 hops with symbolic node ids, symbolic self-route-hint setting) and an amount field that is absent or 0,1,8,9 (quick) / 0..9 symbolic bytes: the HTLC is held as a trampoline payment only if '
        'the signature verifies and the hashes are equal; the amount is the invoice amount (a well-formed amount field must equal it) or else the big-endian value of a 0..8-byte field; payee and bolt11 come from the invoice; '
        'the local node as last hop of any hint with the setting off yields an immediate failure and never a held HTLC. A second HTLC of the same hash with a different signed invoice that has a disallowed self route hint is failed at once.',
   design='4/C10', technique='symbolic execution of the real async stack from MIR under an explicit-state scheduler with partial-order reduction; SMT decides data; native replay over a fake node',
   note=TRUST + '; bech32 / SHA-256 / secp256k1 are an uninterpreted, functionally consistent oracle.'),
 'C17': dict(category='model_checking',
   text='(a) the real MultiLineCodec (built through its own Default impl, so hidden decoder state is included) is driven like FramedRead drives it on every stream of up to 7 (quick) / 9 (thorough) bytes '
        'over an alphabet that contains everything the decoder distinguishes, under every partition into up to 3 / 4 chunks (including splits inside the separator and inside a multi-byte character): the frames, '
        'the leftover and the error outcome equal one-shot reference decoding; a None result leaves the buffer untouched; encode appends exactly line + two newlines. '
        '(b, c) the real PluginDriver::run / dispatch_one / spawned per-request tasks / logging::start_writer run from MIR under the explicit-state scheduler with 2 (3) concurrent requests whose handlers complete in every order '
        'with Ok or Err and 1 (2) concurrent log entries: at quiescence every request id has exactly one flushed reply with result xor error, and every sink operation happens under the output mutex with no other writer between a feed and its flush. '
        'Counterexamples are replayed with the real plugin binary (burst of requests over stdin, replies parsed from stdout).',
   design='4/C17', technique='symbolic execution of rustc MIR: codec over symbolic byte streams and chunkings decided by SMT (z3); driver loop under an explicit-state scheduler over all interleavings within the bound; native replay',
   note=TRUST + '; tokio-util FramedRead / FramedWrite + JsonCodec contracts; bytes contracts; serde_json::Value contract.'),
 'C19': dict(category='proof',
   text='The lowered coroutine of async main is executed with the six integer options as symbolic i64 values and the flags as symbolic booleans (get_info, block watcher start and e-mail setup through their real code against the node model): '
        'the init acknowledgement (cp.start) is reached iff every integer is in the range of its target type and policy delta > safety delta; when reached, the HtlcManagerParams and the provider hold, term for term, '
        'the configured values (retry_for = min(payment timeout, 65535), allow_self_route_hints = not flag). No bound on the values. Second stage: what the provider holds is what it puts into every pay request (retry_for, maxfee, maxdelay, amount symbolic; xpay on and off). Counterexamples are replayed by starting the real plugin binary against a fake lightningd. Third stage: the configured safety delta bounds maxdelay against the highest height processed when the payment is initiated (1 HTLC, 1 height told).',
   design='4/C19', technique='symbolic execution of the async main state machine from MIR; SMT over all i64 option values; native replay with the real binary',
   note=TRUST + '; ConfiguredPlugin::option is a contract (returns the configured value): the option parsing of cln_plugin is outside.'),
}

NOT_YET = 'harness not built yet in this session (see DESIGN.md build order); will be claimed once its check exists'
ALL = ['C%02d' % i for i in range(1, 21)]

def main():
    checks = []
    for pid in ALL:
        c = CHECKS.get(pid)
        if not c:
            continue
        checks.append({
            'property_id': pid,
            'quick_cmd': './check %s --tier quick' % pid,
            'thorough_cmd': './check %s --tier thorough' % pid,
            'evidence_file': '/verif/evidence/%s.json' % pid,
            'replay_cmd_template': './check %s --replay {path}' % pid,
            'engine': 'mirsym',
            'level_claimed': {'category': c['category'], 'text': c['text'], 'design_ref': c['design']},
            'level_note': c['note'],
            'technique': c['technique'],
        })
    na = [{'property_id': p, 'reason': NOT_YET} for p in ALL if p not in CHECKS]
    man = {
        'version': 1,
        'setup_cmd': './setup.sh',
        'hooks': {
            'guard': 'none',
            'enable': 'no source hooks: checks read the MIR dump of the unmodified tree and include /repo/src by #[path] in the replay crate',
            'baseline_off_cmd': 'cd /repo && cargo test --workspace --no-fail-fast --offline',
            'source_commits': [],
            'add_only': True,
        },
        'engines': [
            {'name': 'mirsym', 'path': '/verif/vf', 'serves_properties': sorted(CHECKS),
             'kind_free_text': 'symbolic abstract machine over rustc MIR text (regenerated from /repo on every run), z3 decides every branch and assertion'},
            {'name': 'replay', 'path': '/verif/replay', 'serves_properties': sorted(CHECKS),
             'kind_free_text': 'native crate including /repo/src/*.rs by #[path]; replays solver models in dev and release profiles'},
        ],
        'checks': checks,
        'not_applicable': na,
        'notes': 'Exit codes: 0 pass, 1 VIOLATION (natively reproduced, not a known finding), 2 INCONCLUSIVE (build failure, unsupported construct, bound exceeded, solver unknown, non-reproducing counterexample).',
    }
    with open(os.path.join(HERE, 'MANIFEST.json'), 'w') as f:
        json.dump(man, f, indent=1)
    print('MANIFEST.json: %d checks, %d not_applicable' % (len(checks), len(na)))

if __name__ == '__main__':
    main()
