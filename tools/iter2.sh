#!/bin/bash
VERIF_REPO=${VERIF_REPO:-/repo} ./check "$@" 2>&1 | grep -E "unsupported|PASS|VIOLATION|internal|Error|INCONCLUSIVE" | sed -E 's/\(raw:.*//' | cut -c1-${W:-330} | sort -u | head -${ITER_N:-3}
