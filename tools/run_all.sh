#!/bin/bash
# run every check (quick by default) on the current tree, 4 at a time; summary at the end
TIER=${1:-quick}
cd /verif
mkdir -p out/logs
ls vf/props/c[0-9][0-9].py | sed 's/.*\(c[0-9][0-9]\).py/\1/' | tr a-z A-Z | xargs -P ${JOBS:-4} -I{} sh -c "./check {} --tier $TIER > out/logs/{}.$TIER.log 2>&1; echo \"{} exit=\$?\" >> out/logs/summary.$TIER.tmp"
sort out/logs/summary.$TIER.tmp; rm -f out/logs/summary.$TIER.tmp
for f in out/logs/*.$TIER.log; do tail -1 $f; done
