#!/bin/bash
# print only the first distinct problem of a check run
./check "$@" 2>&1 | grep -E "unsupported|PASS|VIOLATION|internal|Error|INCONCLUSIVE" | sed -E 's/\(raw:.*//; s/^(.{0,260}).*/\1/' | sort -u | head -${ITER_N:-4}
