#!/bin/bash
# usage: tools/triage_seed.sh <seed-id>  -- symbolic-side triage of a seeded change on a scratch worktree (VERIF_REPO);
# the native replay still reads /repo, so a detection shows up here as INCONCLUSIVE "did not reproduce" or VIOLATION.
S=$1; D=/verif/seeded/$S; WT=/tmp/wt/tri-$S
PID=$(python3 -c "import json;print(json.load(open('$D/meta.json'))['property'])")
git -C /repo worktree remove --force $WT 2>/dev/null
git -C /repo worktree add -q --detach $WT HEAD || exit 9
P=$D/patch.diff; [ -f $D/patch.rebased.diff ] && P=$D/patch.rebased.diff
git -C $WT apply $P || { echo "$S: PATCH-DOES-NOT-APPLY"; git -C /repo worktree remove --force $WT; exit 1; }
cd /verif
OUT=$(VERIF_REPO=$WT timeout 1500 ./check $PID --tier quick 2>&1)
echo "$S: exit=$? $(echo "$OUT" | grep -E 'VIOLATION|INCONCLUSIVE' | head -2 | cut -c1-260 | tr '\n' '|') $(echo "$OUT" | tail -1 | cut -c1-160)"
git -C /repo worktree remove --force $WT
