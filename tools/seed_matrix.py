#!/usr/bin/env python3
"""Run the checks against every seeded change: apply to /repo, run the quick check of the targeted property (and of
closely related ones), restore /repo.  Writes seeded/<id>/meta.json['detected_by'] and seeded/MATRIX.md."""
import os, sys, json, subprocess, time, glob
V = '/verif'
RELATED = {'C01': ['C10'], 'C02': ['C16', 'C15'], 'C03': [], 'C04': [], 'C05': ['C08', 'C02'], 'C06': ['C14', 'C11'], 'C07': [], 'C08': ['C15'],
           'C09': [], 'C10': ['C03'], 'C11': ['C03'], 'C12': [], 'C13': [], 'C14': ['C06'], 'C15': ['C16'], 'C16': [], 'C17': [], 'C18': [], 'C19': ['C04', 'C16'], 'C20': ['C04']}
def sh(cmd, **kw):
    return subprocess.run(cmd, shell=True, stdout=subprocess.PIPE, stderr=subprocess.STDOUT, text=True, **kw)
def main():
    only = sys.argv[1:]
    rows = []
    for d in sorted(glob.glob(V + '/seeded/*/')):
        sid = os.path.basename(d.rstrip('/'))
        if only and sid not in only:
            continue
        meta = json.load(open(d + 'meta.json'))
        prop = meta['property']
        if sh('git -C /repo diff --quiet').returncode != 0:
            print('/repo dirty, abort'); return 1
        pf = d + ('patch.rebased.diff' if os.path.exists(d + 'patch.rebased.diff') else 'patch.diff')
        ap = sh('cd /repo && git apply %s' % pf)
        if ap.returncode != 0:
            ap = sh('cd /repo && git apply --3way %s; git reset -q' % pf)
            if sh("cd /repo && grep -rl '^<<<<<<< ' src").stdout.strip():
                sh('cd /repo && git checkout HEAD -- . && git reset -q')
        if sh('git -C /repo diff --quiet').returncode == 0:
            rows.append((sid, prop, 'PATCH-DOES-NOT-APPLY (conflicts with a later fix: commit)', '')); meta.setdefault('detected_by', [])
            meta['applies_to_head'] = False
            json.dump(meta, open(d + 'meta.json', 'w'), indent=1); continue
        res = []
        for pid in [prop] + RELATED.get(prop, []):
            t0 = time.time()
            r = sh('cd %s && timeout 1500 ./check %s --tier quick' % (V, pid))
            last = [l for l in r.stdout.strip().split('\n') if l.strip()][-1] if r.stdout.strip() else ''
            res.append({'check': pid, 'exit': r.returncode, 'wall_s': round(time.time() - t0, 1),
                        'verdict': {0: 'pass (missed)', 1: 'VIOLATION', 2: 'INCONCLUSIVE'}.get(r.returncode, 'error %d' % r.returncode),
                        'line': last[:200]})
            if r.returncode == 1 and pid == prop:
                break
        sh('cd /repo && git checkout HEAD -- . && git reset -q && git clean -fdq -e target')
        meta['detected_by'] = res
        json.dump(meta, open(d + 'meta.json', 'w'), indent=1)
        rows.append((sid, prop, ', '.join('%s:%s' % (x['check'], x['verdict']) for x in res), ''))
        print(sid, rows[-1][2], flush=True)
    with open(V + '/seeded/MATRIX.md', 'w') as f:
        f.write('# Seeded changes vs checks (quick tier)\n\n| seed | targets | patch | result |\n|---|---|---|---|\n')
        for d in sorted(glob.glob(V + '/seeded/*/')):
            sid = os.path.basename(d.rstrip('/'))
            meta = json.load(open(d + 'meta.json'))
            pf = 'patch.rebased.diff' if os.path.exists(d + 'patch.rebased.diff') else 'patch.diff'
            res = ', '.join('%s:%s' % (x['check'], x['verdict']) for x in meta.get('detected_by', [])) or 'not run'
            f.write('| %s | %s | %s | %s |\n' % (sid, meta['property'], pf, res))
    return 0
if __name__ == '__main__':
    sys.exit(main())
