#!/usr/bin/env python3
"""usage: tools/ingest_seeds.py <src dir with Cxx-k dirs> <offset> <origin text> [ids...]
Copies <src>/Cxx-k to seeded/Cxx-(k+offset), confirms each (tools/confirm_seed.sh), records origin / confirmation in
meta.json, then triages each on a scratch tree (tools/triage_seed.sh).  Unconfirmed seeds are removed again."""
import os, sys, json, glob, re, shutil, subprocess
from concurrent.futures import ThreadPoolExecutor
V = '/verif'
def sh(cmd):
    return subprocess.run(cmd, shell=True, stdout=subprocess.PIPE, stderr=subprocess.STDOUT, text=True).stdout
def main():
    src, off, origin = sys.argv[1], int(sys.argv[2]), sys.argv[3]
    only = sys.argv[4:]
    new = []
    for d in sorted(glob.glob(src + '/C*-*')):
        m = re.match(r'^(C\d+)-(\d+)$', os.path.basename(d))
        if not m or (only and m.group(1) not in only):
            continue
        if not all(os.path.exists(os.path.join(d, f)) for f in ('patch.diff', 'demo.diff', 'meta.json')):
            print('incomplete', d); continue
        sid = '%s-%d' % (m.group(1), int(m.group(2)) + off)
        dst = os.path.join(V, 'seeded', sid)
        os.makedirs(dst, exist_ok=True)
        for f in ('patch.diff', 'demo.diff', 'meta.json'):
            shutil.copy(os.path.join(d, f), dst)
        new.append(sid)
    def confirm(sid):
        out = sh('%s/tools/confirm_seed.sh %s/seeded/%s' % (V, V, sid))
        line = [l for l in out.split('\n') if l.startswith(sid + ':')]
        return sid, (line[-1].split(': ', 1)[1] if line else 'NO RESULT: ' + out[-200:])
    with ThreadPoolExecutor(4) as ex:
        res = dict(ex.map(confirm, new))
    keep = []
    for sid in new:
        mp = os.path.join(V, 'seeded', sid, 'meta.json')
        meta = json.load(open(mp))
        meta['origin'] = origin
        meta['confirmed'] = {'by': 'tools/confirm_seed.sh in a scratch worktree of /repo', 'result': res[sid]}
        json.dump(meta, open(mp, 'w'), indent=1)
        if res[sid].startswith('CONFIRMED'):
            keep.append(sid)
        else:
            print('NOT CONFIRMED, removed:', sid, res[sid][:200])
            shutil.rmtree(os.path.join(V, 'seeded', sid))
    print('confirmed:', ' '.join(keep))
    def triage(sid):
        return sh('%s/tools/triage_seed.sh %s' % (V, sid)).strip()
    with ThreadPoolExecutor(4) as ex:
        for line in ex.map(triage, keep):
            print(line[:420])
if __name__ == '__main__':
    main()
